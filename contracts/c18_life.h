/* Life-cycle units (units/c18_life.py): connection parser / connection / transaction creation and teardown, close.
 * Included AFTER the real sources and after c18_alloc.h (whose state-building macros C18_NEED, C18_BSTR_RAW, ... are reused).
 * Like c18_alloc.h this is mostly harness vocabulary: the obligations are CBMC's pointer checks (double free, use after
 * free, invalid free, NULL / dead-object dereference), --memory-leak-check, and VASSERTs taken from the property text. */
#ifndef C18_LIFE_H
#define C18_LIFE_H


/* Stand-in for htp_log where htp_util.c is not linked (CBMC's vsnprintf / strdup models over the 1024-byte formatting buffer
 * need > 1024 unwindings, and the hook_log dispatch reaches every callback-typed function of the library).
 * It keeps what matters for ownership: the level filter, one record + one message string that may each fail to allocate,
 * the record appended to conn->messages with the REAL htp_list_add (growth may fail: record released), last_error.
 * The message text and the hook_log callbacks are not modelled (no hook is registered in these units). */
#if defined(LIFE_LOG_MODEL)
void htp_log(htp_connp_t *connp, const char *file, int line, enum htp_log_level_t level, int code, const char *fmt, ...) {
  if (connp == NULL) return;
  if (connp->cfg->log_level < level) return;
  htp_log_t *log = calloc(1, sizeof(htp_log_t));
  if (log == NULL) return;
  log->connp = connp; log->file = file; log->line = line; log->level = level; log->code = code;
  char *m = malloc(2); if (m != NULL) { m[0] = 'm'; m[1] = 0; }
  log->msg = m;
  if (htp_list_add(connp->conn->messages, log) != HTP_OK) { free((void *) log->msg); free(log); return; }
  if (level == HTP_LOG_ERROR) connp->last_error = log;
}
#endif


/* ---- htp_connp_req_close / htp_connp_close against the PROVED driver contracts of contracts/sm.h --------------------------------------------
 * (only when the unit includes sm.h first: LIFE_CLOSE_CONTRACTS).  The close functions must call the driver inside the driver's precondition from
 * every state in which the driver itself may be called (so "close at any point" inherits the driver's safety, C01), with the empty chunk; and
 * C09: a direction that reported ERROR or STOP stays there and runs no state function (hence no parsing callback) on ANY later call for that
 * direction - closing is such a call. */
#ifdef LIFE_CLOSE_CONTRACTS
#define LIFE_REQ_DRIVER_PRE(c) (__CPROVER_is_fresh((c), sizeof(htp_connp_t)) && __CPROVER_is_fresh((c)->conn, sizeof(htp_conn_t)) && \
    IS_REQ_STATE((c)->in_state) && STREAM_STATE_OK((c)->in_status) && STREAM_STATE_OK((c)->out_status) && \
    (c)->in_stream_offset >= 0 && (c)->in_stream_offset <= OFFMAX && (c)->conn->in_data_counter >= 0 && (c)->conn->in_data_counter <= OFFMAX && \
    (c)->in_chunk_count < ((size_t) 1 << 62))
#ifdef KNOWN_F_C09_CLOSE_AFTER_STOP
#define LIFE_STICKY(s) ((s) == HTP_STREAM_ERROR)
#else
#define LIFE_STICKY(s) ((s) == HTP_STREAM_ERROR || (s) == HTP_STREAM_STOP)
#endif
/* Call-site variant of contract_htp_connp_req_data (contracts/sm.h, ENFORCED on the real driver by unit htp_connp_req_data): the SAME requires and
 * the SAME frame, and of its ensures exactly the clauses 1, 2, 4, 7 minus the conjuncts that read connp->conn->in_data_counter.  The proved contract
 * cannot be used for replacement as it stands: its frame havocs the whole parser object, connp->conn included, and its own ensures then dereference
 * the havocked pointer.  Fewer assumed facts, same asserted precondition: sound with respect to the proved contract. */
int contract_life_site_req_data(htp_connp_t *connp, const htp_time_t *timestamp, const void *data, size_t len)
__CPROVER_requires(__CPROVER_is_fresh(connp, sizeof(*connp)) && __CPROVER_is_fresh(connp->conn, sizeof(htp_conn_t)))
__CPROVER_requires(timestamp == NULL || __CPROVER_is_fresh(timestamp, sizeof(*timestamp)))
__CPROVER_requires(len <= CHUNK_CAP && (g_in_gap ? data == NULL : __CPROVER_is_fresh(data, len)))
/* in addition (asserted at the call, so only stronger): the close protocol = the empty chunk, on a stream that is CLOSED or was left in its sticky ERROR / STOP state */
__CPROVER_requires(data == NULL && len == 0 && (connp->in_status == HTP_STREAM_CLOSED || connp->in_status == HTP_STREAM_ERROR || connp->in_status == HTP_STREAM_STOP))
__CPROVER_requires(IS_REQ_STATE(connp->in_state) && STREAM_STATE_OK(connp->in_status) && STREAM_STATE_OK(connp->out_status))
__CPROVER_requires(connp->in_stream_offset >= 0 && connp->in_stream_offset <= OFFMAX && connp->conn->in_data_counter >= 0 && connp->conn->in_data_counter <= OFFMAX)
__CPROVER_requires(g_state_calls == 0 && g_txstate_n == 0 && connp->in_chunk_count < ((size_t) 1 << 62))
__CPROVER_assigns(RQ_STATE_FRAME(connp), g_txstate_n, connp->conn->in_data_counter)
__CPROVER_ensures(__CPROVER_return_value == HTP_STREAM_DATA || __CPROVER_return_value == HTP_STREAM_DATA_OTHER || __CPROVER_return_value == HTP_STREAM_STOP ||
                  __CPROVER_return_value == HTP_STREAM_ERROR || __CPROVER_return_value == HTP_STREAM_TUNNEL || __CPROVER_return_value == HTP_STREAM_CLOSED)
__CPROVER_ensures((O(connp->in_status) == HTP_STREAM_STOP || O(connp->in_status) == HTP_STREAM_ERROR) ==> (
    __CPROVER_return_value == (int) O(connp->in_status) && connp->in_status == O(connp->in_status) && g_state_calls == 0 && g_txstate_n == 0 &&
    connp->in_state == O(connp->in_state) && connp->in_current_read_offset == O(connp->in_current_read_offset)))
__CPROVER_ensures((__CPROVER_return_value == HTP_STREAM_STOP || __CPROVER_return_value == HTP_STREAM_ERROR) ==> connp->in_status == (enum htp_stream_state_t) __CPROVER_return_value)
__CPROVER_ensures(IS_REQ_STATE(connp->in_state))
;
void contract_htp_connp_req_close(htp_connp_t *connp, const htp_time_t *timestamp)
__CPROVER_requires(connp == NULL || LIFE_REQ_DRIVER_PRE(connp))
__CPROVER_requires(timestamp == NULL || __CPROVER_is_fresh(timestamp, sizeof(*timestamp)))
/* ghosts: the empty chunk of the close call has the shape (NULL, 0), which the driver contract files under g_in_gap */
__CPROVER_requires(g_state_calls == 0 && g_txstate_n == 0 && g_in_gap == 1)
__CPROVER_assigns(connp != NULL: RQ_STATE_FRAME(connp), g_txstate_n, connp->conn->in_data_counter)
/* C09 sticky failure */
__CPROVER_ensures((connp != NULL && LIFE_STICKY(O(connp->in_status))) ==> (connp->in_status == O(connp->in_status) && g_state_calls == 0 && g_txstate_n == 0 &&
    connp->in_state == O(connp->in_state)))
/* (nothing can be said here about connp->conn->in_data_counter: the driver contract's frame is the whole parser object, connp->conn included) */
__CPROVER_ensures(connp != NULL ==> IS_REQ_STATE(connp->in_state))
;
#endif


/* ---- htp_parse_authorization_digest under contract (C01 for header values of ANY length, C02 which bytes are handed to the extractor) ------------
 * Callees replaced by call-logging stubs: bstr_index_of_c (first occurrence of the literal; the search itself is C17: bstr_util_mem_index_of_mem) and
 * htp_extract_quoted_string_as_bstr (its own contract / reference units: units/c02_unb.py, ref_extract_quoted_string). */
#ifdef LIFE_DIGEST_CONTRACTS
#define LIFE_BPTR(b) (((b)->realptr == NULL) ? ((unsigned char *) (b) + sizeof(bstr)) : (unsigned char *) (b)->realptr)
int contract_life_site_index_of_c(const bstr *haystack, const char *needle)
__CPROVER_requires(__CPROVER_r_ok(haystack, sizeof(bstr)) && __CPROVER_r_ok(LIFE_BPTR(haystack), haystack->len))
__CPROVER_requires(__CPROVER_r_ok(needle, 10) && needle[0] == 'u' && needle[1] == 's' && needle[2] == 'e' && needle[3] == 'r' && needle[4] == 'n' && needle[5] == 'a' && needle[6] == 'm' && needle[7] == 'e' && needle[8] == '=' && needle[9] == 0)
__CPROVER_assigns(g_life_idx)
__CPROVER_ensures(__CPROVER_return_value >= -1 && g_life_idx == __CPROVER_return_value)
__CPROVER_ensures(__CPROVER_return_value >= 0 ==> ((size_t) __CPROVER_return_value + 9 <= haystack->len && (gk < 9 ==> LIFE_BPTR(haystack)[(size_t) __CPROVER_return_value + gk] == (unsigned char) needle[gk])))
;
htp_status_t contract_life_site_extract_quoted(unsigned char *data, size_t len, bstr **out, size_t *endoffset)
__CPROVER_requires(len >= 1 && __CPROVER_r_ok(data, len) && __CPROVER_w_ok(out, sizeof(*out)) && endoffset == NULL && g_life_q_n == 0)
__CPROVER_assigns(*out, g_life_q_n, g_life_q_len, g_life_q_off, g_life_q_obj, g_life_q_first, g_life_q_rc)
__CPROVER_ensures(g_life_q_n == 1 && g_life_q_len == len && g_life_q_off == __CPROVER_POINTER_OFFSET(data) && g_life_q_obj == __CPROVER_POINTER_OBJECT(data) && g_life_q_first == data[0] && g_life_q_rc == __CPROVER_return_value)
__CPROVER_ensures(__CPROVER_return_value == HTP_OK || __CPROVER_return_value == HTP_DECLINED || __CPROVER_return_value == HTP_ERROR)
__CPROVER_ensures(__CPROVER_return_value == HTP_OK ==> __CPROVER_is_fresh(*out, sizeof(bstr)))
__CPROVER_ensures(__CPROVER_return_value == HTP_ERROR ==> *out == NULL)
__CPROVER_ensures(__CPROVER_return_value == HTP_DECLINED ==> *out == __CPROVER_old(*out))
;
#define DG_V (auth_header->value)
int contract_htp_parse_authorization_digest(htp_connp_t *connp, htp_header_t *auth_header)
__CPROVER_requires(__CPROVER_is_fresh(connp, sizeof(*connp)) && __CPROVER_is_fresh(connp->in_tx, sizeof(htp_tx_t)) && __CPROVER_is_fresh(auth_header, sizeof(*auth_header)) && RO_BSTR(DG_V))
__CPROVER_requires(g_life_q_n == 0 && VCAP <= INT_MAX - 16)
__CPROVER_assigns(connp->in_tx->request_auth_username, g_life_idx, g_life_q_n, g_life_q_len, g_life_q_off, g_life_q_obj, g_life_q_first, g_life_q_rc)
__CPROVER_ensures(__CPROVER_return_value == HTP_OK || __CPROVER_return_value == HTP_DECLINED || __CPROVER_return_value == HTP_ERROR)
/* nothing is extracted, nothing reported: no "username=", only white space after it, or something other than a double quote */
__CPROVER_ensures(g_life_q_n == 0 ==> (__CPROVER_return_value == HTP_DECLINED && connp->in_tx->request_auth_username == __CPROVER_old(connp->in_tx->request_auth_username)))
__CPROVER_ensures(g_life_idx == -1 ==> g_life_q_n == 0)
/* the extractor runs at most once, on the REST of the value starting at a double quote: [pos, len) with pos >= idx + 9, inside the value */
__CPROVER_ensures(g_life_q_n == 1 ==> (__CPROVER_return_value == g_life_q_rc && g_life_idx >= 0 && g_life_q_len >= 1 && (size_t) g_life_idx + 9 + g_life_q_len <= DG_V->len && g_life_q_first == '"' &&
    g_life_q_obj == __CPROVER_POINTER_OBJECT(LIFE_BPTR(DG_V)) && g_life_q_off == __CPROVER_POINTER_OFFSET(LIFE_BPTR(DG_V)) + (DG_V->len - g_life_q_len)))
/* ... and every byte between "username=" and that quote is white space (nothing else is skipped) */
__CPROVER_ensures((g_life_q_n == 1 && gk >= (size_t) g_life_idx + 9 && gk < DG_V->len - g_life_q_len) ==> ISSP(LIFE_BPTR(DG_V)[gk]))
/* credentials: reported only on OK */
__CPROVER_ensures(__CPROVER_return_value == HTP_DECLINED ==> connp->in_tx->request_auth_username == __CPROVER_old(connp->in_tx->request_auth_username))
;
#endif

#endif
