/* Ghost state and specification macros of the C02 units (parse fidelity, scoped to the extractors).
 * Included before the real sources by ghost.h, so loop invariants may refer to everything defined here.
 *
 * Provenance log of the REPLACED bstr_dup_mem (contract units): sticky call flags + (offset, length) of the n-th call,
 * offsets relative to the start of the input line.  The stub's precondition (asserted at every call site) is "the source
 * range lies inside the input line"; the log lets the enforced function's post-condition relate the ranges to each other.
 *   g_c02_base / g_c02_len   the input line (address only compared, never dereferenced; length after which nothing may be read)
 *   g_c02_dN                 sticky: the N-th duplication happened (N = 1..3; flags, not a counter: HOWTO extra rule 2)
 *   g_c02_oN / g_c02_lN      its source offset / length
 *   g_c02_dupc               sticky: bstr_dup_c("") happened (request header without colon: empty name)
 *   g_c02_fail               prophecy: which duplications answer NULL (bit N-1 = N-th call, bit 3 = bstr_dup_c)
 *   g_c02_free_n             sticky: bstr_free was called on the first duplicate (error path of the header parsers)
 *   g_c02_r1 / g_c02_r2      the fresh objects the first / second duplication answered (identity only)
 *   g_c02_colon              header units: prophecy-free witness of the colon position reported through the loop invariants
 * Response header merge unit (htp_process_response_header_generic):
 *   g_c02m_*                 see contracts/c02_extract.h, section 3
 */
#ifndef GHOST_C02_H
#define GHOST_C02_H
#define GHOSTS_C02(X) \
    X(const void *, g_c02_base) X(size_t, g_c02_len) \
    X(int, g_c02_d1) X(int, g_c02_d2) X(int, g_c02_d3) X(int, g_c02_dupc) \
    X(size_t, g_c02_o1) X(size_t, g_c02_l1) X(size_t, g_c02_o2) X(size_t, g_c02_l2) X(size_t, g_c02_o3) X(size_t, g_c02_l3) \
    X(unsigned, g_c02_fail) X(int, g_c02_free_n) X(const void *, g_c02_r1) X(const void *, g_c02_r2) X(const void *, g_c02_rc) \
    X(size_t, g_c02_len0) \
    X(void *, g_c02m_ex) X(int, g_c02m_have_ex) X(int, g_c02m_isclen) X(size_t, g_c02m_newlen) X(void *, g_c02m_name) X(void *, g_c02m_value) X(void *, g_c02m_h) \
    X(int, g_c02m_parse_rc) X(int, g_c02m_free_name) X(int, g_c02m_free_value) X(int, g_c02m_add_n) X(int, g_c02m_add_rc) X(const void *, g_c02m_add_el) X(const void *, g_c02m_add_key) \
    X(int, g_c02m_exp_n) X(size_t, g_c02m_exp_req) X(int, g_c02m_addmem_n) X(int, g_c02m_addb_n) X(unsigned char, g_c02m_sep0) X(unsigned char, g_c02m_sep1) X(const void *, g_c02m_addb_src) \
    X(int, g_c02m_cl_n)

/* character classes used by invariants: one table read per use (HOWTO 4).  C02_ISCRLF: line terminator bytes */
#define C02_ISCRLF(c) ((c) == 13 || (c) == 10)
/* RFC 7230 tchar (token character) as a table */
static const unsigned char c02_tchar[256] = {
  0,0,0,0,0,0,0,0,0,0,0,0,0,0,0,0, 0,0,0,0,0,0,0,0,0,0,0,0,0,0,0,0,
  0,1,0,1,1,1,1,1,0,0,1,1,0,1,1,0, 1,1,1,1,1,1,1,1,1,1,0,0,0,0,0,0,
  0,1,1,1,1,1,1,1,1,1,1,1,1,1,1,1, 1,1,1,1,1,1,1,1,1,1,1,0,0,0,1,1,
  1,1,1,1,1,1,1,1,1,1,1,1,1,1,1,1, 1,1,1,1,1,1,1,1,1,1,1,0,1,0,1,0 };
#define C02_TCHAR(c) (c02_tchar[(unsigned char)(c)])
#endif
