/* Ghost state and specification macros of the C02 units (parse fidelity, scoped to the extractors).
 * Included before the real sources by ghost.h, so loop invariants may refer to everything defined here.
 *
 * Provenance log of the REPLACED bstr_dup_mem (contract units): sticky call flags + (offset, length) of the n-th call,
 * offsets relative to the start of the input line.  The stub's precondition (asserted at every call site) is "the source
 * range lies inside the input line"; the log lets the enforced function's post-condition relate the ranges to each other.
 *   g_c02_base / g_c02_len   the input line (address only compared, never dereferenced; length after which nothing may be read)
 *   g_c02_dN                 sticky: the N-th duplication happened (N = 1..3; flags, not a counter: HOWTO extra rule 2)
 *   g_c02_oN / g_c02_lN      its source offset / length
 *   g_c02_fail               prophecy: which duplications answer NULL (bit N-1 = N-th call)
 *   g_c02_r1 / g_c02_r2 / g_c02_r3   what the N-th duplication answered (identity only, never dereferenced)
 *   g_c02_f1 / g_c02_f2      sticky: bstr_free was called on the first / second duplicate
 *   g_c02_len0               htp_chomp unit: the length on entry (loop invariants cannot say __CPROVER_old)
 */
#ifndef GHOST_C02_H
#define GHOST_C02_H
#define GHOSTS_C02(X) \
    X(const void *, g_c02_base) X(size_t, g_c02_len) \
    X(int, g_c02_d1) X(int, g_c02_d2) X(int, g_c02_d3) \
    X(size_t, g_c02_o1) X(size_t, g_c02_l1) X(size_t, g_c02_o2) X(size_t, g_c02_l2) X(size_t, g_c02_o3) X(size_t, g_c02_l3) \
    X(unsigned, g_c02_fail) X(int, g_c02_f1) X(int, g_c02_f2) X(const void *, g_c02_r1) X(const void *, g_c02_r2) X(const void *, g_c02_r3) \
    X(size_t, g_c02_len0)

/* character classes used by invariants: one table read per use (HOWTO 4).  C02_ISCRLF: line terminator bytes */
static const unsigned char c02_crlf[256] = { [10] = 1, [13] = 1 };
#define C02_ISCRLF(c) (c02_crlf[(unsigned char)(c)])
/* RFC 7230 tchar (token character) as a table */
static const unsigned char c02_tchar[256] = {
  0,0,0,0,0,0,0,0,0,0,0,0,0,0,0,0, 0,0,0,0,0,0,0,0,0,0,0,0,0,0,0,0,
  0,1,0,1,1,1,1,1,0,0,1,1,0,1,1,0, 1,1,1,1,1,1,1,1,1,1,0,0,0,0,0,0,
  0,1,1,1,1,1,1,1,1,1,1,1,1,1,1,1, 1,1,1,1,1,1,1,1,1,1,1,0,0,0,1,1,
  1,1,1,1,1,1,1,1,1,1,1,1,1,1,1,1, 1,1,1,1,1,1,1,1,1,1,1,0,1,0,1,0 };
#define C02_TCHAR(c) (c02_tchar[(unsigned char)(c)])
#endif
