/* Native replay shim: the same wrapper TU that CBMC verified is compiled with gcc + ASan/UBSan.
 * Contract clauses vanish (they are specification-only); assert/assume become run-time checks. */
#ifndef VNATIVE_H
#define VNATIVE_H
#include <stdio.h>
#include <stdlib.h>
static int v_native_failed;
#define __CPROVER_assume(c) do { if (!(c)) { puts("NATIVE-ASSUME-NOT-MET: " #c); exit(3); } } while (0)
#define __CPROVER_assert(c, d) do { if (!(c)) { printf("NATIVE-FAIL: %s\n", d); v_native_failed = 1; } } while (0)
#define __CPROVER_requires(...)
#define __CPROVER_ensures(...)
#define __CPROVER_assigns(...)
#define __CPROVER_frees(...)
#define __CPROVER_loop_invariant(...)
#define __CPROVER_decreases(...)
#define __CPROVER_size_t size_t
#define VNATIVE 1
void VENTRY(void);
int main(void) { VENTRY(); if (v_native_failed) { puts("NATIVE-VERDICT: violated"); return 1; } puts("NATIVE-VERDICT: holds"); return 0; }
#endif
