/* Ghost state of the state-machine layer (C04 C05 C06 C09 C10 C16): lives in /verif, updated only by
 * the contracts of REPLACED callees (body-data sink, tx state transitions, hooks). */
#ifndef GHOST_SM_H
#define GHOST_SM_H
#define GHOSTS_SM(X) \
    X(size_t, g_body_n) X(const unsigned char *, g_body_ptr) X(size_t, g_body_len) X(int, g_body_rc) \
    X(size_t, g_txstate_n) X(int, g_txstate_which) X(int, g_txstate_rc) \
    X(size_t, g_state_calls) X(size_t, g_hook_n) X(int, g_in_gap) \
    X(size_t, g_clear_n) X(size_t, g_consol_n) X(size_t, g_create_n) X(size_t, g_consol_len) X(int64_t, g_pcl_value) X(size_t, g_hdrproc_n) X(size_t, g_hdr_in_len) \
    X(const unsigned char *, g_hook_ptr) X(size_t, g_hook_len) X(const void *, g_hook_tx) X(int, g_hook_rc) X(int, g_hook_last) \
    GHOSTS_SM_RBD(X)
/* Unit htp_connp_RES_BODY_DETERMINE (contracts/sm_rbd.h).
 * Prophecy ghosts (havocked once, never assigned; the stubs of REPLACED callees answer with them):
 *   g_rbd_hdr_cl/te/ct/exp  what htp_table_get_c answers for "content-length" / "transfer-encoding" / "content-type" (response headers)
 *                           and "expect" (request headers); NULL = header absent
 *   g_rbd_res_tbl/req_tbl   the two header tables of the transaction (compared only, never dereferenced)
 *   g_rbd_clv               what htp_parse_content_length(C-L value) answers (deterministic: same answer at both call sites)
 *   g_rbd_te_idx            bstr_index_of_c_nocasenorzero(T-E value, "chunked");  g_rbd_te_cmp  bstr_cmp_c_nocase(T-E value, "chunked")
 *   g_rbd_exp_cmp           bstr_cmp_c_nocase(Expect value, "100-continue");      g_rbd_mp_idx  bstr_index_of_c_nocase(C-T value, "multipart/byteranges")
 *   g_rbd_dup_fail          bstr_dup_lower(C-T value) fails (returns NULL);       g_rbd_hn      htp_table_size(response headers)
 * Log ghosts (0 on entry, assigned by stubs only):
 *   g_rbd_getidx_n          number of htp_table_get_index calls (the stub insists on index == this counter: 0,1,2,... each once)
 *   g_rbd_relname_n / g_rbd_relval_n   number of bstr_free calls on the name / value of the header fetched last
 *   g_rbd_last_h, g_rbd_last_name / g_rbd_last_value   the header fetched last and its name / value pointers (compared only; ASSIGNED by the stub through
 *                           __CPROVER_pointer_equals: a ghost pointer that is merely assumed equal to a fresh object makes the second call infeasible)
 *   g_rbd_hfree_n           number of free() calls on the header fetched last
 *   g_rbd_tclear_n          number of htp_table_clear calls */
#define GHOSTS_SM_RBD(X) \
    X(void *, g_rbd_hdr_cl) X(void *, g_rbd_hdr_te) X(void *, g_rbd_hdr_ct) X(void *, g_rbd_hdr_exp) \
    X(const void *, g_rbd_res_tbl) X(const void *, g_rbd_req_tbl) \
    X(int64_t, g_rbd_clv) X(int, g_rbd_te_idx) X(int, g_rbd_te_cmp) X(int, g_rbd_exp_cmp) X(int, g_rbd_mp_idx) X(int, g_rbd_dup_fail) X(size_t, g_rbd_hn) \
    X(size_t, g_rbd_getidx_n) X(size_t, g_rbd_relname_n) X(size_t, g_rbd_relval_n) X(void *, g_rbd_last_name) X(void *, g_rbd_last_value) X(size_t, g_rbd_tclear_n) \
    X(void *, g_rbd_last_h) X(size_t, g_rbd_hfree_n)
/* largest stream offset / message length for which the int64 counters provably do not wrap in one call */
#define OFFMAX ((int64_t) 1 << 62)
/* request-side state set (function addresses; used by the driver's loop invariant) */
#define IS_REQ_STATE(f) ((f) == htp_connp_REQ_IDLE || (f) == htp_connp_REQ_LINE || (f) == htp_connp_REQ_PROTOCOL || (f) == htp_connp_REQ_HEADERS || \
    (f) == htp_connp_REQ_CONNECT_CHECK || (f) == htp_connp_REQ_CONNECT_WAIT_RESPONSE || (f) == htp_connp_REQ_CONNECT_PROBE_DATA || \
    (f) == htp_connp_REQ_BODY_DETERMINE || (f) == htp_connp_REQ_BODY_IDENTITY || (f) == htp_connp_REQ_BODY_CHUNKED_LENGTH || \
    (f) == htp_connp_REQ_BODY_CHUNKED_DATA || (f) == htp_connp_REQ_BODY_CHUNKED_DATA_END || (f) == htp_connp_REQ_FINALIZE || \
    (f) == htp_connp_REQ_IGNORE_DATA_AFTER_HTTP_0_9)
#define IS_RES_STATE(f) ((f) == htp_connp_RES_IDLE || (f) == htp_connp_RES_LINE || (f) == htp_connp_RES_HEADERS || (f) == htp_connp_RES_BODY_DETERMINE || \
    (f) == htp_connp_RES_BODY_IDENTITY_CL_KNOWN || (f) == htp_connp_RES_BODY_IDENTITY_STREAM_CLOSE || (f) == htp_connp_RES_BODY_CHUNKED_LENGTH || \
    (f) == htp_connp_RES_BODY_CHUNKED_DATA || (f) == htp_connp_RES_BODY_CHUNKED_DATA_END || (f) == htp_connp_RES_FINALIZE)
/* cursor order, usable in loop invariants */
#define CUR_IN_CURSOR(c) ((c)->in_current_len >= 0 && (c)->in_current_len <= CHUNK_CAP && \
    0 <= (c)->in_current_consume_offset && (c)->in_current_consume_offset <= (c)->in_current_read_offset && \
    (c)->in_current_read_offset <= (c)->in_current_len && \
    0 <= (c)->in_current_receiver_offset && (c)->in_current_receiver_offset <= (c)->in_current_read_offset && \
    (c)->in_stream_offset >= 0)
/* response side: consume <= read holds in every state except after the invalid-chunk-length rewind (htp_response.c:432-436), which
 * moves read back without touching consume and enters RES_BODY_IDENTITY_STREAM_CLOSE (and from there RES_FINALIZE on a closed stream) */
#define CUR_OUT_CURSOR(c) ((c)->out_current_len >= 0 && (c)->out_current_len <= CHUNK_CAP && \
    0 <= (c)->out_current_consume_offset && \
    0 <= (c)->out_current_read_offset && (c)->out_current_read_offset <= (c)->out_current_len && \
    0 <= (c)->out_current_receiver_offset && (c)->out_current_receiver_offset <= (c)->out_current_len && \
    (c)->out_stream_offset >= 0 && (c)->out_current_consume_offset <= (c)->out_current_len + (c)->out_current_read_offset && \
    (((c)->out_current_consume_offset <= (c)->out_current_read_offset && (c)->out_current_receiver_offset <= (c)->out_current_read_offset) || (c)->out_state == htp_connp_RES_BODY_IDENTITY_STREAM_CLOSE || (c)->out_state == htp_connp_RES_FINALIZE))
/* coarse frame of the shared state contract: the parser object itself (fields that must survive are re-stated in RQ_COMMON_POST) */
#define RQ_STATE_FRAME(c) g_state_calls, __CPROVER_object_whole(c)
#define RS_STATE_FRAME(c) g_state_calls, __CPROVER_object_whole(c)
#define RES_TX_INV(c) (((c)->out_state != htp_connp_RES_IDLE) ==> (c)->out_tx != NULL)
#define REQ_TX_INV(c) (((c)->in_state != htp_connp_REQ_IDLE && (c)->in_state != htp_connp_REQ_IGNORE_DATA_AFTER_HTTP_0_9) ==> (c)->in_tx != NULL)
/* a pending (possibly folded) header: NULL, or a live bstr whose length respects the folded cap plus one line */
#define HDR_OK(h) ((h) == NULL || (__CPROVER_rw_ok((h), sizeof(bstr)) && (h)->len <= (size_t) HTP_MAX_HEADER_FOLDED + LINE_CAP))
#ifndef LINE_CAP
#define LINE_CAP 256
#endif
#ifndef CHUNK_CAP
#define CHUNK_CAP 4096
#endif
#endif
