/* Ghost state of the state-machine layer (C04 C05 C06 C09 C10 C16): lives in /verif, updated only by
 * the contracts of REPLACED callees (body-data sink, tx state transitions, hooks). */
#ifndef GHOST_SM_H
#define GHOST_SM_H
#define GHOSTS_SM(X) \
    X(size_t, g_body_n) X(const unsigned char *, g_body_ptr) X(size_t, g_body_len) X(int, g_body_rc) \
    X(size_t, g_txstate_n) X(int, g_txstate_which) X(int, g_txstate_rc) \
    X(size_t, g_state_calls) X(size_t, g_hook_n) X(int, g_in_gap) \
    X(const unsigned char *, g_hook_ptr) X(size_t, g_hook_len) X(const void *, g_hook_tx) X(int, g_hook_rc) X(int, g_hook_last)
/* largest stream offset / message length for which the int64 counters provably do not wrap in one call */
#define OFFMAX ((int64_t) 1 << 62)
#ifndef CHUNK_CAP
#define CHUNK_CAP 4096
#endif
#endif
