/* Ghost state of the response-headers transition and the remaining transaction-layer units (builder-txhdr; units/c05_txhdr.py).
 * Updated only by the contracts of REPLACED callees (decompressor factory, chain destructor, RESPONSE_HEADERS hook, header
 * lookup).  All names carry the prefix g_c06_ / c06_ so that they cannot collide with harness statics of other units. */
#ifndef GHOST_C06_H
#define GHOST_C06_H
/* decompressor factory log: successful creations, LZMA creations among them, attempts, sticky failure flags, format of the last request,
 * event sequence number at the last attempt, "an old chain had been torn down before".  ONE struct = one assigns target: the cost of dfcc's
 * frame-inclusion checks is (targets of the stub) x (targets of the caller) per call, and the tokenizer loop is unwound. */
typedef struct { int made, made_lzma, attempts, failed, after_fail, fmt_bad, fmt_last, after_destroy; size_t seq; } c06_factory_log_t;
#define g_c06_made g_c06f.made
#define g_c06_made_lzma g_c06f.made_lzma
#define g_c06_attempts g_c06f.attempts
#define g_c06_failed g_c06f.failed
#define g_c06_after_fail g_c06f.after_fail
#define g_c06_fmt_bad g_c06f.fmt_bad
#define g_c06_fmt_last g_c06f.fmt_last
#define g_c06_made_seq g_c06f.seq
#define g_c06_made_after_destroy g_c06f.after_destroy
/* decompressor entry log of the two body sinks (coded branch): calls, arguments of the last call */
typedef struct { int n; const void *drec; const unsigned char *ptr; size_t len; const void *tx; int last; unsigned nbcb; } c06_dz_log_t;
/* usable in loop invariants of get_token (must be defined before the real source) */
/* one memory read per use (HOWTO 4): lookup table for the separators of the Content-Encoding list, "," and " " */
static const unsigned char c06_septab[256] = { [','] = 1, [' '] = 1 };
#define C06_SEP2(c, seps) (c06_septab[(unsigned char)(c)] != 0)
#define GHOSTS_C06(X) \
    X(c06_factory_log_t, g_c06f) X(c06_dz_log_t, g_c06_dz) \
    /* chain destructor log: number of calls, event sequence number of the last one */ \
    X(int, g_c06_destroyed) X(size_t, g_c06_destroy_seq) \
    /* value of tx->response_content_encoding_processing left behind by the RESPONSE_HEADERS callbacks */ \
    X(int, g_c06_hook_proc) \
    /* header lookup: 1 = a Content-Encoding header exists */ \
    X(int, g_c06_have_ce) \
    /* what the Content-Encoding value IS (oracle for the whole-value comparisons): 1 gzip, 2 x-gzip, 3 deflate, 4 x-deflate, 5 lzma, 6 inflate, else anything else; token offset of the tokenizer stub */ \
    X(int, g_c06_kind) X(int, g_c06_aux)
#endif
