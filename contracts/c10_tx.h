/* Transaction bookkeeping of the connection parser (C10 max_tx bound, C04 pipelining flag and pairing index). */
#ifndef C10_TX_H
#define C10_TX_H
#include "c17_list.h"

#define TXL(c) ((c)->conn->transactions)
#define WF_CONNP_TXL(c) (__CPROVER_is_fresh((c), sizeof(htp_connp_t)) && __CPROVER_is_fresh((c)->conn, sizeof(htp_conn_t)) && \
    __CPROVER_is_fresh((c)->cfg, sizeof(htp_cfg_t)) && WF_LIST_PRE(TXL(c)))

/* htp_tx_create as seen by its caller: NULL and nothing appended, or a fresh transaction appended LAST with index = old size */
htp_tx_t *contract_htp_tx_create(htp_connp_t *connp)
__CPROVER_requires(connp != NULL && __CPROVER_rw_ok(connp, sizeof(*connp)) && __CPROVER_rw_ok(TXL(connp), sizeof(htp_list_array_t)) && TXL(connp)->current_size < LCAP)
__CPROVER_assigns(g_create_n, TXL(connp)->current_size)
__CPROVER_ensures(g_create_n == 1)
__CPROVER_ensures(__CPROVER_return_value == NULL ==> TXL(connp)->current_size == __CPROVER_old(TXL(connp)->current_size))
__CPROVER_ensures(__CPROVER_return_value != NULL ==> (__CPROVER_is_fresh(__CPROVER_return_value, sizeof(htp_tx_t)) &&
    TXL(connp)->current_size == __CPROVER_old(TXL(connp)->current_size) + 1 && __CPROVER_return_value->index == __CPROVER_old(TXL(connp)->current_size)))
;

htp_tx_t *contract_htp_connp_tx_create(htp_connp_t *connp)
__CPROVER_requires(WF_CONNP_TXL(connp) && g_create_n == 0 && TXL(connp)->current_size < LCAP)
__CPROVER_assigns(g_create_n, TXL(connp)->current_size, connp->conn->flags, connp->in_tx, connp->in_content_length, connp->in_body_data_left, connp->in_chunk_request_index)
/* C10: the connection never holds more than max_tx + 1 transactions: creation is refused once size > max_tx */
__CPROVER_ensures((connp->cfg->max_tx > 0 && __CPROVER_old(TXL(connp)->current_size) > connp->cfg->max_tx) ==>
    (__CPROVER_return_value == NULL && g_create_n == 0 && TXL(connp)->current_size == __CPROVER_old(TXL(connp)->current_size) && connp->in_tx == __CPROVER_old(connp->in_tx)))
__CPROVER_ensures(TXL(connp)->current_size <= __CPROVER_old(TXL(connp)->current_size) + 1)
__CPROVER_ensures((connp->cfg->max_tx > 0 && __CPROVER_old(TXL(connp)->current_size) <= (size_t) connp->cfg->max_tx + 1) ==> TXL(connp)->current_size <= (size_t) connp->cfg->max_tx + 1)
/* C04: the pipelining indicator is set iff a request is started while an earlier request has no response yet */
__CPROVER_ensures((__CPROVER_old(TXL(connp)->current_size) > connp->out_next_tx_index)
    ? (connp->conn->flags == (__CPROVER_old(connp->conn->flags) | HTP_CONN_PIPELINED))
    : (connp->conn->flags == __CPROVER_old(connp->conn->flags)))
/* success: the new transaction is the current request transaction, appended last, index = old size, body counters reset */
__CPROVER_ensures(__CPROVER_return_value != NULL ==> (connp->in_tx == __CPROVER_return_value && __CPROVER_return_value->index == __CPROVER_old(TXL(connp)->current_size) &&
    TXL(connp)->current_size == __CPROVER_old(TXL(connp)->current_size) + 1 && connp->in_content_length == -1 && connp->in_body_data_left == -1 &&
    connp->in_chunk_request_index == connp->in_chunk_count))
__CPROVER_ensures(__CPROVER_return_value == NULL ==> (connp->in_tx == __CPROVER_old(connp->in_tx) && TXL(connp)->current_size == __CPROVER_old(TXL(connp)->current_size)))
;

/* recycling freed slots: removes exactly the leading NULL entries and moves the response index down by as many */
size_t contract_htp_connp_tx_freed(htp_connp_t *connp)
__CPROVER_requires(WF_CONNP_TXL(connp) && gk < TXL(connp)->max_size && connp->out_next_tx_index >= TXL(connp)->current_size)
__CPROVER_assigns(TXL(connp)->first, TXL(connp)->current_size, connp->out_next_tx_index)
__CPROVER_ensures(__CPROVER_return_value <= __CPROVER_old(TXL(connp)->current_size))
__CPROVER_ensures(TXL(connp)->current_size == __CPROVER_old(TXL(connp)->current_size) - __CPROVER_return_value)
__CPROVER_ensures(connp->out_next_tx_index == __CPROVER_old(connp->out_next_tx_index) - __CPROVER_return_value)
__CPROVER_ensures(WF_LIST_FIELDS(TXL(connp)) || TXL(connp)->current_size == 0)
/* what remains starts with a live transaction */
__CPROVER_ensures(TXL(connp)->current_size > 0 ==> VIEW(TXL(connp), 0) != NULL)
;

/* detaching a transaction that is being destroyed: afterwards NEITHER direction refers to it (a transaction can be the current one of
 * both directions at once: CONNECT hand-over, early response), the other direction keeps whatever else it had; nothing else is written.
 * This is what makes "destroy a completed transaction inside a callback" safe (C01): no dangling in_tx / out_tx. */
void contract_htp_connp_tx_remove(htp_connp_t *connp, htp_tx_t *tx)
__CPROVER_requires(connp == NULL || __CPROVER_is_fresh(connp, sizeof(*connp)))
__CPROVER_assigns(connp != NULL: connp->in_tx, connp->out_tx)
__CPROVER_ensures(connp != NULL ==> (connp->in_tx != tx || tx == NULL) && (connp->out_tx != tx || tx == NULL))
__CPROVER_ensures(connp != NULL ==> (connp->in_tx == __CPROVER_old(connp->in_tx) || (connp->in_tx == NULL && __CPROVER_old(connp->in_tx) == tx)))
__CPROVER_ensures(connp != NULL ==> (connp->out_tx == __CPROVER_old(connp->out_tx) || (connp->out_tx == NULL && __CPROVER_old(connp->out_tx) == tx)))
;

/* removing a transaction from its connection (called by htp_tx_destroy): its slot - and only a slot that held it - becomes NULL, the list keeps its
 * size and order (indices of the other transactions stay valid: pairing, C04); a transaction that is not in the list changes nothing (DECLINED) */
htp_status_t contract_htp_conn_remove_tx(htp_conn_t *conn, const htp_tx_t *tx)
__CPROVER_requires(__CPROVER_is_fresh(conn, sizeof(*conn)) && WF_LIST_PRE(conn->transactions) && gk < conn->transactions->max_size && tx != NULL)
__CPROVER_assigns(__CPROVER_object_whole(conn->transactions->elements))
__CPROVER_ensures(__CPROVER_return_value == HTP_OK || __CPROVER_return_value == HTP_DECLINED)
__CPROVER_ensures(gk < conn->transactions->current_size ==> (VIEW(conn->transactions, gk) == __CPROVER_old(VIEW(conn->transactions, gk)) ||
                  (__CPROVER_old(VIEW(conn->transactions, gk)) == (void *) tx && VIEW(conn->transactions, gk) == NULL && __CPROVER_return_value == HTP_OK)))
__CPROVER_ensures((__CPROVER_return_value == HTP_DECLINED && gk < conn->transactions->current_size) ==> VIEW(conn->transactions, gk) != (void *) tx)
__CPROVER_ensures((gk < conn->transactions->current_size && __CPROVER_old(VIEW(conn->transactions, gk)) == (void *) tx) ==> __CPROVER_return_value == HTP_OK)
;
#endif
