/* Contracts for htp_list.c: the array list is a double-ended sequence (C17).
 * Abstract view: VIEW(l,i), 0 <= i < current_size, = the i-th element from the head.
 * Laws are stated for the arbitrary witness gk (< max_size so that reads stay in bounds). */
#ifndef C17_LIST_H
#define C17_LIST_H

#define WF_LIST_PRE(l) (__CPROVER_is_fresh((l), sizeof(htp_list_array_t)) && (l)->max_size >= 1 && (l)->max_size <= LCAP && \
    __CPROVER_is_fresh((l)->elements, (l)->max_size * sizeof(void *)) && WF_LIST_FIELDS(l))
/* growth path: capacity is a per-unit constant LMAX (symbolic-size memcpy does not bit-blast); first/current_size stay symbolic */
#ifdef LMAX
#define WF_LIST_PRE_K(l) (__CPROVER_is_fresh((l), sizeof(htp_list_array_t)) && (l)->max_size == LMAX && \
    __CPROVER_is_fresh((l)->elements, LMAX * sizeof(void *)) && WF_LIST_FIELDS(l))
#else
#define WF_LIST_PRE_K(l) WF_LIST_PRE(l)
#endif

/* push post-conditions, shared verbatim by the contract (replace mode in callers) and by the lemma
 * harness that checks the real function (units/c17_list.py).  o_* are pre-state values. */
#define PUSH_POST_OK(l, e, o_cs, o_max, o_view_gk, o_view_gj) ( \
    (l)->current_size == (o_cs) + 1 && \
    ((l)->max_size == (o_max) || (l)->max_size == 2 * (o_max)) && \
    (l)->max_size >= 1 && (l)->current_size <= (l)->max_size && (l)->first < (l)->max_size && (l)->last < (l)->max_size && \
    (l)->last == LIST_POS(l, (l)->current_size == (l)->max_size ? 0 : (l)->current_size) && \
    VIEW(l, o_cs) == (e) && \
    (gk < (o_cs) ==> VIEW(l, gk) == (o_view_gk)) && (gj < (o_cs) ==> VIEW(l, gj) == (o_view_gj)))
#define PUSH_POST_ERR(l, o_cs, o_max, o_first, o_last, o_el, o_view_gk) ( \
    (l)->current_size == (o_cs) && (l)->max_size == (o_max) && (l)->first == (o_first) && (l)->last == (o_last) && \
    (l)->elements == (o_el) && VIEW(l, gk) == (o_view_gk))
#define PUSH_POST_NOGROW(l, rc, o_cs, o_max, o_first, o_el) ( \
    (o_cs) < (o_max) ==> ((rc) == HTP_OK && (l)->max_size == (o_max) && (l)->elements == (o_el) && (l)->first == (o_first)))

/* CBMC 6.11 cannot check this contract with dfcc on the real function: memcpy with a symbolic
 * length into an array of pointers yields spurious values (minimal reproducer in DESIGN.md).  The
 * real function is checked against exactly these macros by lemma units that enumerate capacity and
 * head position as constants; the contract itself is used only in replace mode. */
htp_status_t contract_htp_list_array_push(htp_list_array_t *l, void *e)
__CPROVER_requires(WF_LIST_PRE(l) && gk < l->max_size && gj <= l->max_size)
__CPROVER_assigns(l->first, l->last, l->max_size, l->current_size, l->elements, __CPROVER_object_whole(l->elements))
__CPROVER_frees(l->elements)
__CPROVER_ensures(__CPROVER_return_value == HTP_OK || __CPROVER_return_value == HTP_ERROR)
__CPROVER_ensures(__CPROVER_return_value == HTP_OK ==> PUSH_POST_OK(l, e, __CPROVER_old(l->current_size), __CPROVER_old(l->max_size), __CPROVER_old(VIEW(l, gk)), __CPROVER_old(VIEW(l, gj))))
__CPROVER_ensures(__CPROVER_return_value == HTP_OK ==> (l->elements == __CPROVER_old(l->elements) || __CPROVER_is_fresh(l->elements, l->max_size * sizeof(void *))))
__CPROVER_ensures(__CPROVER_return_value == HTP_ERROR ==> PUSH_POST_ERR(l, __CPROVER_old(l->current_size), __CPROVER_old(l->max_size), __CPROVER_old(l->first), __CPROVER_old(l->last), __CPROVER_old(l->elements), __CPROVER_old(VIEW(l, gk))))
__CPROVER_ensures(PUSH_POST_NOGROW(l, __CPROVER_return_value, __CPROVER_old(l->current_size), __CPROVER_old(l->max_size), __CPROVER_old(l->first), __CPROVER_old(l->elements)))
;

void *contract_htp_list_array_pop(htp_list_array_t *l)
__CPROVER_requires(WF_LIST_PRE(l) && gk < l->max_size)
__CPROVER_assigns(l->last, l->current_size)
__CPROVER_ensures(__CPROVER_old(l->current_size) == 0 ==> (__CPROVER_return_value == NULL && l->current_size == 0 && l->last == __CPROVER_old(l->last)))
__CPROVER_ensures(__CPROVER_old(l->current_size) > 0 ==> (
    l->current_size == __CPROVER_old(l->current_size) - 1 &&
    __CPROVER_return_value == __CPROVER_old(VIEW(l, l->current_size == 0 ? 0 : l->current_size - 1)) && WF_LIST_FIELDS(l)))
/* nothing else moves: the array is not in the frame, so every remaining VIEW(gk) is unchanged */
;

void *contract_htp_list_array_shift(htp_list_array_t *l)
__CPROVER_requires(WF_LIST_PRE(l) && gk < l->max_size)
__CPROVER_assigns(l->first, l->current_size)
__CPROVER_ensures(__CPROVER_old(l->current_size) == 0 ==> (__CPROVER_return_value == NULL && l->current_size == 0 && l->first == __CPROVER_old(l->first)))
__CPROVER_ensures(__CPROVER_old(l->current_size) > 0 ==> (
    l->current_size == __CPROVER_old(l->current_size) - 1 &&
    __CPROVER_return_value == __CPROVER_old(VIEW(l, 0)) && WF_LIST_FIELDS(l) &&
    /* the sequence moved down by one */
    (gk + 1 < __CPROVER_old(l->current_size) ==> VIEW(l, gk) == __CPROVER_old(VIEW(l, gk + 1 >= l->max_size ? 0 : gk + 1)))))
;

void *contract_htp_list_array_get(const htp_list_array_t *l, size_t idx)
__CPROVER_requires(l == NULL || WF_LIST_PRE(l))
__CPROVER_assigns()
__CPROVER_ensures((l == NULL || idx >= l->current_size) ==> __CPROVER_return_value == NULL)
__CPROVER_ensures((l != NULL && idx < l->current_size) ==> __CPROVER_return_value == VIEW(l, idx))
;

htp_status_t contract_htp_list_array_replace(htp_list_array_t *l, size_t idx, void *e)
__CPROVER_requires(WF_LIST_PRE(l) && gk < l->max_size)
__CPROVER_assigns(__CPROVER_object_whole(l->elements))
__CPROVER_ensures(idx < l->current_size ? (__CPROVER_return_value == HTP_OK && VIEW(l, idx) == e) : __CPROVER_return_value == HTP_DECLINED)
__CPROVER_ensures((gk < l->current_size && (gk != idx || idx >= l->current_size)) ==> VIEW(l, gk) == __CPROVER_old(VIEW(l, gk)))
;

/* l == NULL yields (size_t) HTP_ERROR by a defined signed->unsigned conversion; not part of the abstract type, so not claimed */
size_t contract_htp_list_array_size(const htp_list_array_t *l)
__CPROVER_requires(WF_LIST_PRE(l))
__CPROVER_assigns()
__CPROVER_ensures(__CPROVER_return_value == l->current_size)
;

void contract_htp_list_array_clear(htp_list_array_t *l)
__CPROVER_requires(l == NULL || WF_LIST_PRE(l))
__CPROVER_assigns(l != NULL: l->first, l->last, l->current_size)
__CPROVER_ensures(l != NULL ==> (l->current_size == 0 && WF_LIST_FIELDS(l) && l->max_size == __CPROVER_old(l->max_size) && l->elements == __CPROVER_old(l->elements)))
;

htp_status_t contract_htp_list_array_init(htp_list_t *l, size_t size)
__CPROVER_requires(__CPROVER_is_fresh(l, sizeof(htp_list_array_t)) && size >= 1 && size <= LCAP)
__CPROVER_assigns(l->first, l->last, l->max_size, l->current_size, l->elements)
__CPROVER_ensures(__CPROVER_return_value == HTP_OK || __CPROVER_return_value == HTP_ERROR)
__CPROVER_ensures(__CPROVER_return_value == HTP_OK ==> (l->current_size == 0 && l->max_size == size && WF_LIST_FIELDS(l) && __CPROVER_is_fresh(l->elements, size * sizeof(void *))))
;

htp_list_t *contract_htp_list_array_create(size_t size)
__CPROVER_requires(size <= LCAP)
__CPROVER_assigns()
__CPROVER_ensures(size == 0 ==> __CPROVER_return_value == NULL)
__CPROVER_ensures(__CPROVER_return_value != NULL ==> (__CPROVER_is_fresh(__CPROVER_return_value, sizeof(htp_list_array_t)) &&
    __CPROVER_return_value->current_size == 0 && __CPROVER_return_value->max_size == size && WF_LIST_FIELDS(__CPROVER_return_value) &&
    __CPROVER_is_fresh(__CPROVER_return_value->elements, size * sizeof(void *))))
;
#endif
