/* Ghost state of the transaction-lifecycle layer (C05): one global event counter and, per callback
 * kind, how often it ran and at which position of the event sequence.  Updated only by the contracts
 * of REPLACED callees (htp_hook_run_all, the body sinks, receiver finalisation, tx destruction). */
#ifndef GHOST_C05_H
#define GHOST_C05_H
/* per event kind: number of deliveries (history counter, bounded in requires) and the sequence number of the last one */
#define C05_EV(X, h) X(size_t, g_cnt_##h) X(size_t, g_seq_##h)
#define GHOSTS_C05(X) \
    X(size_t, g_seq) X(const void *, g_hook_tx_last) X(const void *, g_tx_self) X(int, g_hook_tx_other) \
    X(int, g_hook_failed) X(int, g_hook_rc_fail) X(int, g_hook_after_fail) X(int, g_hook_rc_last) \
    X(int, g_c05_in_same) X(int, g_c05_out_same) X(int, g_c05_put) X(const void *, g_destroy_tx) X(int, g_prh_rc) X(int, g_fclr_rc) \
    C05_EV(X, req_start) C05_EV(X, req_uri_norm) C05_EV(X, req_line) C05_EV(X, req_trailer) C05_EV(X, req_complete) \
    C05_EV(X, res_start) C05_EV(X, res_line) C05_EV(X, res_headers) C05_EV(X, res_complete) C05_EV(X, tx_complete) \
    C05_EV(X, sink) C05_EV(X, fclr) C05_EV(X, prh) C05_EV(X, destroy)
#endif
