/* C19: the process descriptor table is shared by all connections; a descriptor number is released exactly where the upload ends
 * (htp_mpart_part_finalize_data) and NOWHERE else: htp_mpart_part_destroy releases memory and the temporary file NAME only.
 * A second close of the same number hits whatever file another connection opened under it in between. */
#ifndef C19_SHARED_H
#define C19_SHARED_H
int contract_never_close(int fd) __CPROVER_requires(0) __CPROVER_assigns() __CPROVER_ensures(1);
int contract_c19_unlink(const char *path) __CPROVER_requires(path != NULL) __CPROVER_assigns() __CPROVER_ensures(1);
/* the part owns no strings and no header table in this unit: the string / table destructors see NULL or are never reached */
void contract_c19_bstr_free_null(bstr *b) __CPROVER_requires(b == NULL) __CPROVER_assigns() __CPROVER_ensures(1);
size_t contract_c19_never_table_size(const htp_table_t *t) __CPROVER_requires(0) __CPROVER_assigns() __CPROVER_ensures(1);
void *contract_c19_never_table_get_index(const htp_table_t *t, size_t idx, bstr **key) __CPROVER_requires(0) __CPROVER_assigns() __CPROVER_ensures(1);
void contract_c19_never_table_destroy(htp_table_t *t) __CPROVER_requires(0) __CPROVER_assigns() __CPROVER_ensures(1);
void contract_htp_mpart_part_destroy(htp_multipart_part_t *part, int gave_up_data)
__CPROVER_requires(__CPROVER_is_fresh(part, sizeof(*part)) && __CPROVER_is_fresh(part->file, sizeof(htp_file_t)))
__CPROVER_requires(part->file->filename == NULL && (g_wrapped ? __CPROVER_is_fresh(part->file->tmpname, 8) : part->file->tmpname == NULL))
__CPROVER_requires(part->name == NULL && part->value == NULL && part->content_type == NULL && part->headers == NULL)
__CPROVER_assigns(part->file)
__CPROVER_frees(part, part->file, part->file->tmpname)
__CPROVER_ensures(1);
#endif
