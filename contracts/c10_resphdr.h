/* GENERATED from contracts/c11_flags.h (request producer) by textual substitution in_tx -> out_tx, req_header_repetitions -> res_header_repetitions:
 * htp_process_response_header_generic has the same structure as its request twin. Same stubs (c11_flags.h). Carries C10 (repetition cap, no unbounded merge),
 * C02 (merge = old ", " new), C18 (ownership of the parsed name/value). */
#ifndef C10_RESPHDR_H
#define C10_RESPHDR_H
#include "c11_flags.h"
htp_status_t contract_c11_htp_parse_response_header_generic(htp_connp_t *connp, htp_header_t *h, unsigned char *data, size_t len)
__CPROVER_requires(__CPROVER_rw_ok(h, sizeof(*h)) && h->name == NULL && h->value == NULL && h->flags == 0)
__CPROVER_assigns(h->name, h->value, h->flags, g_c11_name, g_c11_value, g_c11_h)
__CPROVER_ensures(__CPROVER_return_value == g_c11_parse_rc && g_c11_h == (void *) h)
__CPROVER_ensures(__CPROVER_return_value == HTP_OK ==> (__CPROVER_is_fresh(h->name, sizeof(bstr) + 16) && __CPROVER_is_fresh(h->value, sizeof(bstr) + C11_VALCAP) &&
    h->value->realptr == NULL && h->value->size == C11_VALCAP && h->value->len == g_c11_newlen && g_c11_name == (void *) h->name && g_c11_value == (void *) h->value))
;
#define PR_DROPPED(c) (P_SECOND && P_WAS_REP && O((c)->out_tx->res_header_repetitions) >= HTP_MAX_HEADERS_REPETITIONS)
#define PR_MERGE(c) (P_SECOND && !PR_DROPPED(c) && g_c11_isclen != 0)
htp_status_t contract_htp_process_response_header_generic(htp_connp_t *connp, unsigned char *data, size_t len)
__CPROVER_requires(__CPROVER_is_fresh(connp, sizeof(*connp)) && __CPROVER_is_fresh(connp->out_tx, sizeof(htp_tx_t)))
__CPROVER_requires(g_c11_ex != NULL && C11_GHOST_HDR(g_c11_ex) && g_c11_newlen <= C11_VALCAP && (g_c11_have_ex == 0 || g_c11_have_ex == 1))
__CPROVER_requires((g_c11_parse_rc == HTP_OK || g_c11_parse_rc == HTP_ERROR) && (g_c11_add_rc == HTP_OK || g_c11_add_rc == HTP_ERROR))
__CPROVER_requires(g_c11_free_name == 0 && g_c11_free_value == 0 && g_c11_add_n == 0 && g_c11_exp_n == 0 && g_c11_addmem_n == 0 && g_c11_addb_n == 0 && g_c11_h == NULL)
/* case split (the union of the three cases blows up the propositional encoding, each case takes seconds): the units enumerate
 * C11_PRODUCER_CASE = first occurrence | repeated Content-Length | repeated other name; together they cover every input */
#ifdef C11_PRODUCER_CASE
__CPROVER_requires(C11_PRODUCER_CASE)
#endif
/* C10: the repetition counter is within its cap on entry (it is 0 in a new transaction and only this function moves it) */
__CPROVER_requires(connp->out_tx->res_header_repetitions <= HTP_MAX_HEADERS_REPETITIONS)
__CPROVER_assigns(g_c11_name, g_c11_value, g_c11_h, g_c11_free_name, g_c11_free_value, g_c11_add_n, g_c11_add_key, g_c11_add_el, g_c11_exp_n, g_c11_exp_req,
    g_c11_addmem_n, g_c11_sep0, g_c11_sep1, g_c11_addb_n, g_c11_addb_src, connp->out_tx->res_header_repetitions;
    C11_E->flags, C11_E->value)
__CPROVER_ensures(__CPROVER_return_value == HTP_OK || __CPROVER_return_value == HTP_ERROR)
/* header allocation or parse failure: error, nothing stored, nothing marked */
__CPROVER_ensures(g_c11_h == NULL ==> (__CPROVER_return_value == HTP_ERROR && g_c11_add_n == 0))
__CPROVER_ensures((g_c11_h != NULL && !P_PARSED) ==> (__CPROVER_return_value == HTP_ERROR && g_c11_add_n == 0 && g_c11_exp_n == 0))
/* 1. a second header with the same name marks the STORED header as repeated, on every path (also when the newcomer is dropped or memory runs out) */
__CPROVER_ensures((g_c11_h != NULL && P_SECOND) ==> C11_E->flags == (O(C11_E->flags) | HTP_FIELD_REPEATED))
__CPROVER_ensures(!(g_c11_h != NULL && P_SECOND) ==> (C11_E->flags == O(C11_E->flags) && C11_E->value == O(C11_E->value)))
/* 2. repetition counter: capped, moves by one only for the third and later occurrences (C10) */
__CPROVER_ensures(connp->out_tx->res_header_repetitions <= HTP_MAX_HEADERS_REPETITIONS)
__CPROVER_ensures(connp->out_tx->res_header_repetitions == O(connp->out_tx->res_header_repetitions) +
    ((g_c11_h != NULL && P_SECOND && P_WAS_REP && O(connp->out_tx->res_header_repetitions) < HTP_MAX_HEADERS_REPETITIONS) ? 1 : 0))
/* 2'. beyond the cap the newcomer is dropped: nothing merged, nothing stored, success */
__CPROVER_ensures((g_c11_h != NULL && PR_DROPPED(connp)) ==> (__CPROVER_return_value == HTP_OK && g_c11_exp_n == 0 && g_c11_add_n == 0 && C11_E->value == O(C11_E->value)))
/* 3. Content-Length is never merged: the stored value object and its length are untouched */
__CPROVER_ensures((g_c11_h != NULL && P_SECOND && g_c11_isclen == 0) ==> (g_c11_exp_n == 0 && g_c11_addmem_n == 0 && g_c11_addb_n == 0 && g_c11_add_n == 0 &&
    C11_E->value == O(C11_E->value) && C11_E->value->len == O(C11_E->value->len) && (__CPROVER_return_value == HTP_OK || PR_DROPPED(connp))))
/* 4. any other name: stored value := old ", " new  (capacity asked for = len + 2 + n; separator bytes; then the parsed value) */
__CPROVER_ensures((g_c11_h != NULL && PR_MERGE(connp)) ==> (g_c11_exp_n == 1 && g_c11_exp_req == O(C11_E->value->len) + 2 + g_c11_newlen && g_c11_add_n == 0))
__CPROVER_ensures((g_c11_h != NULL && PR_MERGE(connp) && __CPROVER_return_value == HTP_OK) ==> (g_c11_addmem_n == 1 && g_c11_sep0 == ',' && g_c11_sep1 == ' ' &&
    g_c11_addb_n == 1 && g_c11_addb_src == (const void *) g_c11_value && C11_E->value != NULL && C11_E->value->len == O(C11_E->value->len) + 2 + g_c11_newlen &&
    C11_E->value->size == C11_E->value->len))
__CPROVER_ensures((g_c11_h != NULL && PR_MERGE(connp) && __CPROVER_return_value != HTP_OK) ==> (C11_E->value == O(C11_E->value) && g_c11_addmem_n == 0))
/* 5. first occurrence: offered to the table under its own name, once */
__CPROVER_ensures((g_c11_h != NULL && P_PARSED && g_c11_have_ex == 0) ==> (g_c11_add_n == 1 && g_c11_add_key == (const void *) g_c11_name && g_c11_add_el == (const void *) g_c11_h &&
    /* (differs from the request twin: a refused insert is reported) */ __CPROVER_return_value == (g_c11_add_rc == HTP_OK ? HTP_OK : HTP_ERROR)))
/* 6. ownership of the parsed name and value (C18): kept iff the header was stored, released exactly once otherwise (a second release is refused by the stub) */
__CPROVER_ensures((g_c11_h != NULL && P_STORED) ==> (g_c11_free_name == 0 && g_c11_free_value == 0))
__CPROVER_ensures((g_c11_h != NULL && P_PARSED && !P_STORED) ==> (g_c11_free_name == 1 && g_c11_free_value == 1))
;
#endif
