/* Ghost state of the line-oriented REQUEST states (units/sm_reqline.py, contracts/sm_reqline.h).
 * Sticky flags / logs written only by the contracts of REPLACED callees (never old+1: see HOWTO).
 *   g_ql_parse_n      1 = cfg->parse_request_line ran
 *   g_ql_ign_n/g_ql_ign   htp_connp_is_line_ignorable ran / what it answered
 *   g_ql_clr_at_tx    value of g_clear_n at the moment the transaction transition ran (was the line already discarded?)
 *   g_ql_hdr_at_tx    1 = a pending header was still attached when the transition ran
 *   g_qh_proc_n       1 = cfg->process_request_header ran; g_qh_proc_len = length it was handed last; g_qh_proc_rc its answer
 *   g_qh_add_n        1 = bstr_add_mem ran (a folded continuation was appended); g_qh_add_old = length of the pending header before it
 *   g_qh_dup_n        1 = bstr_dup_mem ran (a new pending header was started)
 *   g_qh_free_n       1 = bstr_free(pending header) ran
 *   g_qh_term/g_qh_fold   answers of the line classifiers (prophecy-style logs)
 */
#ifndef GHOST_C09_H
#define GHOST_C09_H
#define GHOSTS_C09(X) \
    X(size_t, g_ql_parse_n) X(size_t, g_ql_ign_n) X(int, g_ql_ign) X(size_t, g_ql_clr_at_tx) X(int, g_ql_hdr_at_tx) \
    X(size_t, g_qh_proc_n) X(size_t, g_qh_proc_len) X(int, g_qh_proc_rc) X(size_t, g_qh_add_n) X(size_t, g_qh_add_old) \
    X(size_t, g_qh_dup_n) X(size_t, g_qh_free_n) X(size_t, g_qh_term_n) X(int, g_qh_term) X(int, g_qh_fold)
/* ---- vocabulary of the REQ_HEADERS loop invariant (must precede the real sources) ---- */
/* pending (possibly folded) header: NULL, or a live bstr header whose length stays below the folded cap plus one line */
#define QH_HBOUND ((size_t) HTP_MAX_HEADER_FOLDED + LINE_CAP)
#define QH_HDR_INV(h) ((h) == NULL || (__CPROVER_rw_ok((h), sizeof(bstr)) && (h)->len < QH_HBOUND))
/* The pending header inside the loop: the POINTER is havocked by the loop contract, so the invariant pins it to one of the objects it can be
 * (pointer equalities give the havocked pointer real targets; rw_ok on a havocked pointer trips --pointer-primitive-check and reads garbage):
 * none, the one that was pending on entry, or the model's header object qh_hdr_obj (units/sm_reqline.py QH_MODELS: at most one header is pending at a time). */
struct bstr_t; extern struct bstr_t qh_hdr_obj;
#define QH_HDR_LOOP_INV(c) ((c)->in_header == NULL || (c)->in_header == __CPROVER_loop_entry((c)->in_header) || (c)->in_header == &qh_hdr_obj)
#define QH_HDR_LEN_INV(c) ((c)->in_header == NULL || (c)->in_header->len < QH_HBOUND)
/* what one pass over the copy loop may write: the read side of the cursor, the buffer, the pending header POINTER, one transaction flag (NO ghosts: see sm_reqline.h) */
#define QH_LOOP_ASSIGNS(c) (c)->in_next_byte, (c)->in_current_read_offset, (c)->in_stream_offset, (c)->in_current_consume_offset, \
    (c)->in_buf, (c)->in_buf_size, (c)->in_header, (c)->in_tx->flags, qh_hdr_obj
/* bytes of this chunk that are read but not yet consumed never contain a LF: every complete line has been discarded, the rest is an unfinished line */
#define QH_PENDING_NO_LF(c, FROM) ((gk < CHUNK_CAP && (int64_t) gk >= (FROM) && (int64_t) gk >= (c)->in_current_consume_offset && (int64_t) gk < (c)->in_current_read_offset) ==> \
    (c)->in_current_data[gk] != LF)
#endif
