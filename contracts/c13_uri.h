/* Contracts and models for the URI splitter (C13): htp_parse_uri, htp_parse_hostport, port rule.
 * Included AFTER the real htp_util.c. */
#ifndef C13_URI_H
#define C13_URI_H

/* CBMC 6.11 ships no model for memchr ("no body for callee memchr": the result would be an arbitrary
 * pointer).  Bounded units (-DC13_MEMCHR_MODEL) use this textbook model; contract units replace the
 * call by contract_memchr below.  Native replays use the C library's memchr. */
#if defined(C13_MEMCHR_MODEL) && !defined(VNATIVE)
void *memchr(const void *s, int c, size_t n) {
    const unsigned char *sp = (const unsigned char *) s;
    __CPROVER_assert(__CPROVER_r_ok(s, n), "memchr: region readable");
    for (size_t i = 0; i < n; i++) if (sp[i] == (unsigned char) c) return (void *) (sp + i);
    return NULL;
}
#endif

/* Bounded units (-DC13_BSTR_MODEL, bstr.c NOT linked): fixed-capacity model of the two bstr primitives the
 * splitter uses.  Capacity N bytes (the unit's input bound) so that the heap objects have a constant size.
 * The real bstr_dup_mem is compared with this model by unit c13_dup_model_lemma. */
#if defined(C13_BSTR_MODEL) && !defined(VNATIVE)   /* native replays link the real bstr.c */
bstr *bstr_dup_mem(const void *data, size_t len) {
    VASSERT(len <= N, "bstr model: requested length within the unit's bound");
    bstr *b = malloc(sizeof(bstr) + (N));
    if (b == NULL) return NULL;
    b->len = len; b->size = len; b->realptr = NULL;
    for (size_t i = 0; i < (N); i++) if (i < len) ((unsigned char *) b + sizeof(bstr))[i] = ((const unsigned char *) data)[i];
    return b;
}
void bstr_free(bstr *b) { if (b == NULL) return; free(b); }
#endif

/* =====================================================================================================
 * Contract units (dfcc): htp_parse_uri / htp_parse_hostport with bstr_dup_mem and memchr REPLACED.
 * ===================================================================================================== */
#define C13_POFF(p) ((size_t) __CPROVER_POINTER_OFFSET(p))

/* memchr: NULL, or a pointer to an occurrence of c inside [s, s+n).  (First-occurrence is not needed for the
 * partition claims; the bounded units use a first-occurrence model.)  g_mc_i is the existential witness. */
void *contract_c13_memchr(const void *s, int c, size_t n)
__CPROVER_requires(__CPROVER_r_ok(s, n))
__CPROVER_assigns(g_mc_i)
__CPROVER_ensures(__CPROVER_return_value == NULL ||
    (g_mc_i < n && __CPROVER_return_value == (void *) (UC(s) + g_mc_i) && UC(s)[g_mc_i] == (unsigned char) c))
;

/* bstr_dup_mem stub: the source range must lie inside the input buffer (ASSERTED at every call site in replace
 * mode: "no byte is taken from anywhere else"), the call is logged, the result is NULL or a fresh bstr header. */
#define C13_SLOT_POST(i, o, l) (__CPROVER_old(g_dup_n) == (i) ? (g_o##i == (o) && g_l##i == (l)) \
                                                               : (g_o##i == __CPROVER_old(g_o##i) && g_l##i == __CPROVER_old(g_l##i)))
bstr *contract_c13_dup_mem(const void *data, size_t len)
__CPROVER_requires(g_dup_n < C13_MAXDUP)
__CPROVER_requires(__CPROVER_same_object(data, g_uri_base) && C13_POFF(data) >= C13_POFF(g_uri_base) &&
                   C13_POFF(data) - C13_POFF(g_uri_base) <= g_uri_len && len <= g_uri_len - (C13_POFF(data) - C13_POFF(g_uri_base)))
__CPROVER_assigns(C13_LOG_ASSIGNS)
__CPROVER_ensures(g_dup_n == __CPROVER_old(g_dup_n) + 1)
__CPROVER_ensures(C13_SLOT_POST(0, C13_POFF(data) - C13_POFF(g_uri_base), len) && C13_SLOT_POST(1, C13_POFF(data) - C13_POFF(g_uri_base), len) &&
                  C13_SLOT_POST(2, C13_POFF(data) - C13_POFF(g_uri_base), len) && C13_SLOT_POST(3, C13_POFF(data) - C13_POFF(g_uri_base), len) &&
                  C13_SLOT_POST(4, C13_POFF(data) - C13_POFF(g_uri_base), len) && C13_SLOT_POST(5, C13_POFF(data) - C13_POFF(g_uri_base), len) &&
                  C13_SLOT_POST(6, C13_POFF(data) - C13_POFF(g_uri_base), len) && C13_SLOT_POST(7, C13_POFF(data) - C13_POFF(g_uri_base), len))
__CPROVER_ensures(__CPROVER_return_value == NULL || __CPROVER_is_fresh(__CPROVER_return_value, sizeof(bstr)))
;

/* ---- htp_parse_uri --------------------------------------------------------------------------------------
 * D = bytes of the input, n = E(last slot) = length without trailing spaces.  Presence flags and slot numbers: */
#define C13_U (*uri)
#define C13_S ((size_t) (C13_U->scheme != NULL))
#define C13_Un ((size_t) (C13_U->username != NULL))
#define C13_P ((size_t) (C13_U->password != NULL))
#define C13_H ((size_t) (C13_U->hostname != NULL))
#define C13_T ((size_t) (C13_U->port != NULL))
#define C13_Q ((size_t) (C13_U->query != NULL))
#define C13_F ((size_t) (C13_U->fragment != NULL))
#define C13_iU (C13_S)
#define C13_iP (C13_S + C13_Un)
#define C13_iA (C13_S + C13_Un + C13_P)                 /* first host/port slot */
#define C13_iPath (C13_iA + C13_H + C13_T)
#define C13_iQ (C13_iPath + 1)
#define C13_iF (C13_iPath + 1 + C13_Q)
#define C13_N (C13_E(g_dup_n - 1))                      /* end of the last component */
#define C13_D (bstr_ptr(input))
#define C13_AUTH (g_l0 + 3)                             /* start of the authority: scheme ':' '/' '/' */
#define C13_HS (C13_Un ? (C13_P ? C13_E(C13_iP) : C13_E(C13_iU)) + 1 : C13_AUTH)   /* start of host[:port] */
#define C13_BYTE(i, c) ((i) < bstr_len(input) && C13_D[(i)] == (c))                  /* guarded read */

int contract_htp_parse_uri(bstr *input, htp_uri_t **uri)
/* the input object has the CONSTANT capacity VCAP and a symbolic length <= VCAP: a symbolic-size object makes the
 * splitter's pointer differences (m - data - start) explode in the propositional encoding */
__CPROVER_requires(__CPROVER_is_fresh(input, sizeof(bstr) + VCAP) && input->realptr == NULL && input->size == VCAP && input->len <= VCAP)
__CPROVER_requires(__CPROVER_is_fresh(uri, sizeof(*uri)))
__CPROVER_requires(g_c13_prealloc ? (__CPROVER_is_fresh(*uri, sizeof(htp_uri_t)) && (*uri)->scheme == NULL && (*uri)->username == NULL &&
                                     (*uri)->password == NULL && (*uri)->hostname == NULL && (*uri)->port == NULL && (*uri)->path == NULL &&
                                     (*uri)->query == NULL && (*uri)->fragment == NULL)
                                  : *uri == NULL)
__CPROVER_requires(g_uri_base == bstr_ptr(input) && g_uri_len == bstr_len(input) && g_dup_n == 0)
__CPROVER_assigns(*uri, C13_LOG_ASSIGNS, g_mc_i; g_c13_prealloc: __CPROVER_object_whole(*uri))
__CPROVER_ensures(__CPROVER_return_value == HTP_OK || __CPROVER_return_value == HTP_ERROR)
__CPROVER_ensures(g_dup_n <= C13_MAXDUP)
__CPROVER_ensures(g_c13_prealloc ==> *uri == __CPROVER_old(*uri))
__CPROVER_ensures(__CPROVER_return_value == HTP_OK ==> *uri != NULL)
/* every logged range lies inside the input (also asserted per call by the stub's precondition) */
__CPROVER_ensures(gk < g_dup_n ==> (C13_O(gk) <= bstr_len(input) && C13_L(gk) <= bstr_len(input) - C13_O(gk)))
/* a target that starts with '/' has no scheme and no authority */
__CPROVER_ensures((__CPROVER_return_value == HTP_OK && bstr_len(input) > 0 && C13_D[0] == '/') ==>
                  (!C13_S && !C13_Un && !C13_P && !C13_H && !C13_T))
/* empty (or all-space) target: nothing reported */
__CPROVER_ensures((__CPROVER_return_value == HTP_OK && g_dup_n == 0) ==>
                  (!C13_S && !C13_Un && !C13_P && !C13_H && !C13_T && !C13_Q && !C13_F && C13_U->path == NULL &&
                   (gk < bstr_len(input) ==> C13_D[gk] == ' ')))
#if C13_LEVEL >= 1
/* number of components == number of dup calls; a non-empty target always has a path */
__CPROVER_ensures((__CPROVER_return_value == HTP_OK && g_dup_n > 0) ==> (C13_U->path != NULL && g_dup_n == C13_iPath + 1 + C13_Q + C13_F))
/* n = end of the last component = input length minus trailing spaces; every component ends at or before n */
__CPROVER_ensures((__CPROVER_return_value == HTP_OK && g_dup_n > 0) ==>
                  (C13_N >= 1 && C13_N <= bstr_len(input) && C13_D[C13_N - 1] != ' ' &&
                   ((gk >= C13_N && gk < bstr_len(input)) ==> C13_D[gk] == ' ') && (gj < g_dup_n ==> C13_E(gj) <= C13_N)))
#endif
#if C13_LEVEL >= 2
/* head: scheme starts at 0 and is followed by ':' */
__CPROVER_ensures((__CPROVER_return_value == HTP_OK && g_dup_n > 0 && C13_S) ==> (g_o0 == 0 && C13_BYTE(g_l0, ':')))
/* authority only after a scheme, introduced by "//"; user / password / '@' chain */
__CPROVER_ensures((__CPROVER_return_value == HTP_OK && g_dup_n > 0 && C13_H) ==>
                  (C13_S && C13_BYTE(g_l0 + 1, '/') && C13_BYTE(g_l0 + 2, '/') &&
                   (C13_Un ? (C13_O(C13_iU) == C13_AUTH && C13_BYTE(C13_HS - 1, '@')) : !C13_P) &&
                   (C13_P ==> (C13_O(C13_iP) == C13_E(C13_iU) + 1 && C13_BYTE(C13_E(C13_iU), ':')))))
/* host alone: starts where userinfo ended, path starts where host ends (IP literal: see C13_IPV6_GAP) */
__CPROVER_ensures((__CPROVER_return_value == HTP_OK && g_dup_n > 0 && C13_H && !C13_T) ==>
                  (C13_O(C13_iA) == C13_HS &&
                   (C13_BYTE(C13_HS, '[') ? C13_E(C13_iA) C13_IPV6_GAP C13_O(C13_iPath) : C13_E(C13_iA) == C13_O(C13_iPath))))
/* host and port: "[...]" literal => host logged first, otherwise port logged first */
__CPROVER_ensures((__CPROVER_return_value == HTP_OK && g_dup_n > 0 && C13_H && C13_T) ==>
                  (C13_BYTE(C13_HS, '[')
                   ? (C13_O(C13_iA) == C13_HS && C13_O(C13_iA + 1) >= 1 && C13_E(C13_iA) C13_IPV6_GAP C13_O(C13_iA + 1) - 1 &&
                      C13_BYTE(C13_O(C13_iA + 1) - 1, ':') && C13_E(C13_iA + 1) == C13_O(C13_iPath))
                   : (C13_O(C13_iA + 1) == C13_HS && C13_E(C13_iA + 1) + 1 == C13_O(C13_iA) &&
                      C13_BYTE(C13_E(C13_iA + 1), ':') && C13_E(C13_iA) == C13_O(C13_iPath))))
/* no authority: no user/password/port, path starts right after the scheme (or at 0) */
__CPROVER_ensures((__CPROVER_return_value == HTP_OK && g_dup_n > 0 && !C13_H) ==>
                  (!C13_Un && !C13_P && !C13_T && C13_O(C13_iPath) == (C13_S ? g_l0 + 1 : 0)))
/* tail: '?' query, '#' fragment */
__CPROVER_ensures((__CPROVER_return_value == HTP_OK && g_dup_n > 0 && C13_Q) ==>
                  (C13_O(C13_iQ) == C13_E(C13_iPath) + 1 && C13_BYTE(C13_E(C13_iPath), '?')))
__CPROVER_ensures((__CPROVER_return_value == HTP_OK && g_dup_n > 0 && C13_F) ==>
                  (C13_O(C13_iF) == C13_E(C13_iF - 1) + 1 && C13_BYTE(C13_E(C13_iF - 1), '#')))
#endif
;

#endif
