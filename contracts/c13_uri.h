/* Contracts and models for the URI splitter (C13): htp_parse_uri, htp_parse_hostport, port rule.
 * Included AFTER the real htp_util.c. */
#ifndef C13_URI_H
#define C13_URI_H

/* CBMC 6.11 ships no model for memchr ("no body for callee memchr": the result would be an arbitrary
 * pointer).  Bounded units (-DC13_MEMCHR_MODEL) use this textbook model; contract units replace the
 * call by contract_memchr below.  Native replays use the C library's memchr. */
#if defined(C13_MEMCHR_MODEL) && !defined(VNATIVE)
void *memchr(const void *s, int c, size_t n) {
    const unsigned char *sp = (const unsigned char *) s;
    __CPROVER_assert(__CPROVER_r_ok(s, n), "memchr: region readable");
    for (size_t i = 0; i < n; i++) if (sp[i] == (unsigned char) c) return (void *) (sp + i);
    return NULL;
}
#endif

/* Bounded units (-DC13_BSTR_MODEL, bstr.c NOT linked): fixed-capacity model of the two bstr primitives the
 * splitter uses.  Capacity N bytes (the unit's input bound) so that the heap objects have a constant size.
 * The real bstr_dup_mem is compared with this model by unit c13_dup_model_lemma. */
#ifdef C13_BSTR_MODEL
bstr *bstr_dup_mem(const void *data, size_t len) {
    VASSERT(len <= N, "bstr model: requested length within the unit's bound");
    bstr *b = malloc(sizeof(bstr) + (N));
    if (b == NULL) return NULL;
    b->len = len; b->size = len; b->realptr = NULL;
    for (size_t i = 0; i < (N); i++) if (i < len) ((unsigned char *) b + sizeof(bstr))[i] = ((const unsigned char *) data)[i];
    return b;
}
void bstr_free(bstr *b) { if (b == NULL) return; free(b); }
#endif

#endif
