/* builder-txhdr: htp_tx_state_response_headers (C05 / C07 / C18 / C01) and the rest of the transaction layer.
 *
 * htp_tx_state_response_headers is ENFORCED on the real code.  Replaced callees and what their stubs log (contracts/ghost_c06.h):
 *   htp_table_get_c                      -> NULL or ONE static header object (c06_hdr) whose value is a static bstr of C06_CE_CAP bytes (C stub)
 *   bstr_cmp_c_nocasenorzero             -> oracle: the value IS coding g_c06_kind (gzip, x-gzip, deflate, x-deflate, lzma, inflate, none of them) (C stub)
 *   bstr_util_cmp_mem, bstr_util_mem_index_of_c_nocase
 *                                        -> any result: every token of a coding list may be any coding, known or unknown (C stubs)
 *   get_token                            -> a non-empty sub-range of the input (enforced on the real get_token by unit c06_get_token)
 *   htp_connp_res_receiver_finalize_clear-> event `fclr` (stub of c05_life.h)
 *   htp_hook_run_all                     -> event `res_headers`; the callbacks MAY rewrite tx->response_content_encoding_processing
 *                                           (documented scenarios 2 and 3, htp_transaction.c:1369-1379); value logged in g_c06_hook_proc
 *   htp_gzip_decompressor_create         -> NULL at any time, else the next element of the static pool c06_pool[] (unlinked, no sink);
 *                                           counts creations / LZMA creations / attempts, sticky "failed" and "attempt after a failure"
 *   htp_tx_res_destroy_decompressors     -> chain head cleared, call logged
 * Post-conditions are taken from the property texts:
 *   C05  callbacks in protocol order, each at most once, refusal returned at once, progress indicators untouched;
 *   C07  "no more decompression layers are applied than configured";
 *   C18  a failed allocation (factory returns NULL) is reported, nothing is attempted after it, the chain stays well-formed;
 *   C01  memory safety of the tokenizer cursor arithmetic, termination (complete unwinding from the length of the header value).
 */
#ifndef C05_TXHDR_H
#define C05_TXHDR_H
#include "c05_life.h"

#ifndef C06_CE_CAP
#define C06_CE_CAP 8
#endif
#ifndef C06_POOL
#define C06_POOL 5
#endif
#ifndef C06_TOK_CAP
#define C06_TOK_CAP 8
#endif

/* ---- static objects handed out by the stubs (constant addresses: cheap for symex, indexable by ghost witnesses) ------------ */
typedef struct { bstr b; unsigned char d[C06_CE_CAP]; } c06_val_t;
static c06_val_t c06_val;
static htp_header_t c06_hdr;
static htp_decompressor_t c06_pool[C06_POOL];
#define C06_SINK htp_tx_res_process_body_data_decompressor_callback
#define C06_FMT_OK(f) ((f) == HTP_COMPRESSION_GZIP || (f) == HTP_COMPRESSION_DEFLATE || (f) == HTP_COMPRESSION_LZMA)

/* ---- stubs ----------------------------------------------------------------------------------------------------------------------- */
/* htp_table_get_c, bstr_cmp_c_nocasenorzero, bstr_util_cmp_mem, bstr_util_mem_index_of_c_nocase and htp_log live in other translation units and
 * write nothing: they are plain C stubs in the unit's `post` text (units/c05_txhdr.py, RH_POST), not replaced contracts - each replaced call costs a
 * dfcc write-set creation and the tokenizer loop is unwound.  Their call-site requirement: */
/* the token handed to the comparison helpers lies inside the header value */
#define C06_TOK_IN_VALUE(p, n) ((n) <= C06_CE_CAP && __CPROVER_r_ok((p), (n)))

/* tokenizer: 0 = no token left (input is all separators); 1 = a NON-EMPTY token inside the input (leading separators skipped).
 * Enforced on the real get_token by unit c06_get_token. */
#define C06_GET_TOKEN_POST(in, in_len, ptr, len) ( \
    (R == 0 || R == 1) && \
    (R == 1 ==> (__CPROVER_same_object((ptr), (in)) && (ptr) >= (const unsigned char *)(in) && (len) >= 1 && \
                 (size_t)((ptr) - (const unsigned char *)(in)) < (in_len) && (len) <= (in_len) - (size_t)((ptr) - (const unsigned char *)(in)))))
int contract_c06_get_token_site(const unsigned char *in, size_t in_len, const char *seps, unsigned char **ret_tok_ptr, size_t *ret_tok_len)
__CPROVER_requires(in_len >= 1 && in_len <= C06_CE_CAP && __CPROVER_r_ok(in, in_len) && seps != NULL)
__CPROVER_requires(__CPROVER_w_ok(ret_tok_ptr, sizeof(*ret_tok_ptr)) && __CPROVER_w_ok(ret_tok_len, sizeof(*ret_tok_len)))
__CPROVER_assigns(*ret_tok_ptr, *ret_tok_len, g_c06_aux)
/* the result pointer is in + k for a logged offset k: assigned with pointer arithmetic on `in` so that its points-to set is known */
__CPROVER_ensures(R == 0 || R == 1)
__CPROVER_ensures(R == 1 ==> (g_c06_aux >= 0 && (size_t) g_c06_aux < in_len && *ret_tok_len >= 1 && *ret_tok_len <= in_len - (size_t) g_c06_aux))
__CPROVER_ensures(R == 0 || __CPROVER_pointer_equals(*ret_tok_ptr, (unsigned char *) in + g_c06_aux))
;

/* RESPONSE_HEADERS hook at this call site: the event log of c05_life.h plus the documented right of the callbacks to switch
 * decompression on or off by rewriting tx->response_content_encoding_processing */
htp_status_t contract_c06_hook_run_all_rh(htp_hook_t *hook, void *user_data)
/* asserted at the call site: the hook that runs here IS the RESPONSE_HEADERS slot of the configuration */
__CPROVER_requires(g_seq < 16 && g_cnt_res_headers < 8 && hook == HK_res_headers && __CPROVER_rw_ok((htp_tx_t *) user_data, sizeof(htp_tx_t)))
__CPROVER_assigns(g_cnt_res_headers, g_seq_res_headers, g_seq, g_hook_tx_last, g_hook_tx_other, g_hook_failed, g_hook_rc_fail, g_hook_after_fail, g_hook_rc_last,
    g_c06_hook_proc, ((htp_tx_t *) user_data)->response_content_encoding_processing)
__CPROVER_ensures(g_seq == O(g_seq) + 1 && EV_HIT(res_headers))
__CPROVER_ensures(g_hook_tx_last == user_data && g_hook_tx_other == (O(g_hook_tx_other) || user_data != g_tx_self))
__CPROVER_ensures(RC3(R) && g_hook_rc_last == R)
__CPROVER_ensures(g_hook_failed == (O(g_hook_failed) || R != HTP_OK) && g_hook_rc_fail == (O(g_hook_failed) ? O(g_hook_rc_fail) : (int) R) &&
                  g_hook_after_fail == (O(g_hook_after_fail) || O(g_hook_failed)))
__CPROVER_ensures(g_c06_hook_proc == (int) ((htp_tx_t *) user_data)->response_content_encoding_processing)
;

/* decompressor factory (the real one is enforced by unit c07_create: NULL, or an unlinked object without sink, only for the three codings) */
htp_decompressor_t *contract_c06_decompressor_create(htp_connp_t *connp, enum htp_content_encoding_t format)
__CPROVER_requires(connp != NULL && g_c06_made >= 0 && g_c06_made < C06_POOL && g_c06_attempts >= 0 && g_c06_attempts < 64 &&
                   g_c06_made_lzma >= 0 && g_c06_made_lzma <= g_c06_made)
__CPROVER_assigns(g_c06f, c06_pool[g_c06_made])
__CPROVER_ensures(R == NULL || __CPROVER_pointer_equals(R, &c06_pool[O(g_c06_made)]))
__CPROVER_ensures(R != NULL ==> (C06_FMT_OK(format) && c06_pool[O(g_c06_made)].next == NULL && c06_pool[O(g_c06_made)].callback == NULL))
__CPROVER_ensures(g_c06_attempts == O(g_c06_attempts) + 1 && g_c06_fmt_last == (int) format && g_c06_made_seq == g_seq)
__CPROVER_ensures(g_c06_made == O(g_c06_made) + (R != NULL ? 1 : 0))
__CPROVER_ensures(g_c06_made_lzma == O(g_c06_made_lzma) + ((R != NULL && format == HTP_COMPRESSION_LZMA) ? 1 : 0))
__CPROVER_ensures(g_c06_failed == (O(g_c06_failed) || R == NULL) && g_c06_after_fail == (O(g_c06_after_fail) || O(g_c06_failed)))
__CPROVER_ensures(g_c06_fmt_bad == (O(g_c06_fmt_bad) || !C06_FMT_OK(format)))
__CPROVER_ensures(g_c06_made_after_destroy == (g_c06_destroyed != 0))
;
/* owner's tear-down of a previous chain (the real one is checked by lemma c06_res_destroy_decompressors) */
void contract_c06_res_destroy_decompressors(htp_connp_t *connp)
__CPROVER_requires(__CPROVER_rw_ok(connp, sizeof(*connp)) && g_c06_destroyed >= 0 && g_c06_destroyed < 4)
__CPROVER_assigns(connp->out_decompressor, g_c06_destroyed, g_c06_destroy_seq)
__CPROVER_ensures(connp->out_decompressor == NULL && g_c06_destroyed == O(g_c06_destroyed) + 1 && g_c06_destroy_seq == g_seq)
;

/* ---- the enforced transition ----------------------------------------------------------------------------------------------------- */
#define C06_GHOSTS_INIT (g_c06_made == 0 && g_c06_made_lzma == 0 && g_c06_attempts == 0 && g_c06_failed == 0 && g_c06_after_fail == 0 && \
    g_c06_fmt_bad == 0 && g_c06_destroyed == 0 && g_c06_made_after_destroy == 0)
#define C06_HDR_WF (__CPROVER_pointer_equals(c06_hdr.value, &c06_val.b) && c06_val.b.realptr == NULL && c06_val.b.size == C06_CE_CAP && c06_val.b.len <= C06_CE_CAP)
#define C06_CFG(tx) ((tx)->connp->cfg)
#define C06_GHOST_ASSIGNS g_c06f, g_c06_destroyed, g_c06_destroy_seq, g_c06_hook_proc, g_c06_aux
/* the only events of this transition: receiver flush and the RESPONSE_HEADERS hook.  No other event ghost is in the frame, so "nothing else is
 * delivered" (EV_ONLY) is carried by the frame check itself. */
#define C06_EVENT_ASSIGNS g_seq, g_cnt_res_headers, g_seq_res_headers, g_cnt_fclr, g_seq_fclr, g_fclr_rc, g_hook_tx_last, g_hook_tx_other, g_hook_failed, \
    g_hook_rc_fail, g_hook_after_fail, g_hook_rc_last
#define C06_MAX(a, b) ((a) > (b) ? (a) : (b))

htp_status_t contract_c06_tx_state_response_headers(htp_tx_t *tx)
__CPROVER_requires(C05_TX(tx) && C06_GHOSTS_INIT && C06_HDR_WF)
/* a negative layer limit is meaningless (0 = unlimited, library default 2) */
__CPROVER_requires(C06_CFG(tx)->response_decompression_layer_limit >= 0)
__CPROVER_assigns(C06_EVENT_ASSIGNS, C06_GHOST_ASSIGNS, tx->response_content_encoding, tx->response_content_encoding_processing, tx->connp->out_decompressor,
    tx->connp->out_data_receiver_hook, tx->connp->out_current_receiver_offset, __CPROVER_object_whole(c06_pool))
/* ---- C05 ---- */
__CPROVER_ensures(RC3(R) && C05_POST_COMMON && C05_MONO(tx) && tx->response_progress == O(tx->response_progress) && tx->request_progress == O(tx->request_progress))
/* raw header data is flushed first, then RESPONSE_HEADERS exactly once for this tx; a refusal of either is returned at once; nothing else is delivered */
__CPROVER_ensures(EV_ONLY(fclr, res_headers, none, none, none) && EV_RAN(fclr) && g_seq_fclr == 1)
__CPROVER_ensures(g_fclr_rc != HTP_OK ? (R == g_fclr_rc && EV_NOT(res_headers) && g_seq == 1)
                                      : (EV_RAN(res_headers) && g_seq_res_headers == 2 && g_seq == 2 && g_hook_tx_last == (const void *) tx))
/* after a refusal nothing is set up or torn down: the decompressor chain is untouched */
__CPROVER_ensures((g_fclr_rc != HTP_OK || g_hook_failed) ==> (g_c06_attempts == 0 && g_c06_destroyed == 0 && tx->connp->out_decompressor == O(tx->connp->out_decompressor)))
/* set-up happens after both deliveries (so the callbacks' decision is honoured), tear-down of an old chain before the first creation */
__CPROVER_ensures(g_c06_attempts > 0 ==> (g_c06_made_seq == 2 && !g_hook_failed && g_fclr_rc == HTP_OK))
__CPROVER_ensures(g_c06_destroyed <= 1 && (g_c06_destroyed == 1 ==> (g_c06_destroy_seq == 2 && O(tx->connp->out_decompressor) != NULL)))
__CPROVER_ensures((g_c06_attempts > 0 && O(tx->connp->out_decompressor) != NULL) ==> (g_c06_destroyed == 1 && g_c06_made_after_destroy))
/* ---- C07: no more layers than configured ---- */
__CPROVER_ensures(C06_CFG(tx)->response_decompression_layer_limit != 0 ==> g_c06_made <= C06_MAX(C06_CFG(tx)->response_decompression_layer_limit, 1))
__CPROVER_ensures(C06_CFG(tx)->response_decompression_layer_limit >= 1 ==> g_c06_made <= C06_CFG(tx)->response_decompression_layer_limit)
/* LZMA: a coding LIST never yields more LZMA layers than response_lzma_layer_limit; a lone lzma coding yields one layer object, which the
 * factory creates in passthrough mode when LZMA is switched off (unit c07_create) */
__CPROVER_ensures(g_c06_made_lzma <= 1 || g_c06_made_lzma <= C06_CFG(tx)->response_lzma_layer_limit)
__CPROVER_ensures((g_c06_made >= 2 && g_c06_made_lzma >= 1) ==> g_c06_made_lzma <= C06_CFG(tx)->response_lzma_layer_limit)
__CPROVER_ensures(!g_c06_fmt_bad)
/* decompression disabled in the configuration: the header value is not consulted; exactly the callbacks' choice is honoured */
__CPROVER_ensures((!C06_CFG(tx)->response_decompression_enabled && g_fclr_rc == HTP_OK && !g_hook_failed) ==> (
    C06_FMT_OK(g_c06_hook_proc) ? (g_c06_attempts == 1 && g_c06_fmt_last == g_c06_hook_proc && R == (g_c06_failed ? HTP_ERROR : HTP_OK))
                                : (g_c06_attempts == 0 && R == (g_c06_hook_proc == HTP_COMPRESSION_NONE ? HTP_OK : HTP_ERROR))))
/* no Content-Encoding header: same */
__CPROVER_ensures((!g_c06_have_ce && g_fclr_rc == HTP_OK && !g_hook_failed) ==> (
    tx->response_content_encoding == HTP_COMPRESSION_NONE &&
    (C06_FMT_OK(g_c06_hook_proc) ? (g_c06_attempts == 1 && g_c06_fmt_last == g_c06_hook_proc) : g_c06_attempts == 0)))
/* ---- C07: the announced coding is classified as documented (whole-value comparisons answered by the oracle g_c06_kind) ---- */
#define C06_KIND_ENC (!g_c06_have_ce ? HTP_COMPRESSION_NONE : (g_c06_kind == 1 || g_c06_kind == 2) ? HTP_COMPRESSION_GZIP : \
    (g_c06_kind == 3 || g_c06_kind == 4) ? HTP_COMPRESSION_DEFLATE : g_c06_kind == 5 ? HTP_COMPRESSION_LZMA : HTP_COMPRESSION_NONE)
__CPROVER_ensures(tx->response_content_encoding == C06_KIND_ENC)
/* a single known coding, decompression enabled, callbacks leave the decision alone: exactly one layer of exactly that coding */
__CPROVER_ensures((C06_CFG(tx)->response_decompression_enabled && g_c06_have_ce && g_c06_kind >= 1 && g_c06_kind <= 5 && g_fclr_rc == HTP_OK && !g_hook_failed &&
    g_c06_hook_proc == (int) C06_KIND_ENC) ==> (g_c06_attempts == 1 && g_c06_fmt_last == (int) C06_KIND_ENC && R == (g_c06_failed ? HTP_ERROR : HTP_OK)))
/* "inflate" (and a missing header) announce no coding: no layer unless the callbacks ask for one */
__CPROVER_ensures(((!g_c06_have_ce || g_c06_kind == 6) && g_fclr_rc == HTP_OK && !g_hook_failed && g_c06_hook_proc == HTP_COMPRESSION_NONE) ==> (g_c06_attempts == 0 && R == HTP_OK))
/* ---- C18: a failed creation is reported at once; the chain is exactly the created layers, in order, each with the bomb-checking sink ---- */
__CPROVER_ensures(g_c06_failed ==> R == HTP_ERROR)
__CPROVER_ensures(!g_c06_after_fail)
__CPROVER_ensures(g_c06_attempts > 0 ==> tx->connp->out_decompressor == (g_c06_made > 0 ? &c06_pool[0] : NULL))
__CPROVER_ensures((g_c06_attempts == 0 && g_c06_destroyed) ==> tx->connp->out_decompressor == NULL)
__CPROVER_ensures(g_c06_made >= 0 && g_c06_made <= C06_POOL && g_c06_made <= g_c06_attempts)
__CPROVER_ensures((gk < (size_t) g_c06_made) ==> (c06_pool[gk].callback == C06_SINK &&
    c06_pool[gk].next == (gk + 1 < (size_t) g_c06_made ? &c06_pool[gk + 1] : NULL)))
;

/* ==== the two body sinks, CODED branch (the uncoded branch is under contract in sm.h / units/sm_tx.py) ================================
 * C07 / C06 / C01: with a content coding in force the head of the decompressor chain receives exactly the caller's block for this
 * transaction, once; without a decompressor (allocation failure earlier, C18) the call is refused and nothing is delivered; the chain is
 * torn down at the end-of-body marker, AFTER the last delivery, and only then; the wire length is counted whatever happens. */
#define C06_DZ_POST(drec, d) (g_c06_dz.n == O(g_c06_dz.n) + 1 && g_c06_dz.drec == (const void *)(drec) && g_c06_dz.ptr == (d)->data && g_c06_dz.len == (d)->len && \
    g_c06_dz.tx == (const void *)(d)->tx && g_c06_dz.last == (d)->is_last && g_c06_dz.nbcb == (drec)->nb_callbacks)
/* decompressor entry: any result; on its way down the chain it reaches the bomb-checking sink, which moves the entity length and the clock fields */
htp_status_t contract_c06_res_decompress(htp_decompressor_t *drec, htp_tx_data_t *d)
__CPROVER_requires(__CPROVER_rw_ok(drec, sizeof(*drec)) && __CPROVER_r_ok(d, sizeof(*d)) && __CPROVER_rw_ok(d->tx, sizeof(htp_tx_t)) && g_c06_dz.n >= 0 && g_c06_dz.n < 4)
__CPROVER_assigns(g_c06_dz, d->tx->response_entity_len, drec->nb_callbacks, drec->time_spent, drec->time_before, drec->passthrough)
__CPROVER_ensures(g_c06_dz.n == O(g_c06_dz.n) + 1 && g_c06_dz.drec == (const void *) drec && g_c06_dz.ptr == d->data &&
    g_c06_dz.len == d->len && g_c06_dz.tx == (const void *) d->tx && g_c06_dz.last == d->is_last && g_c06_dz.nbcb == O(drec->nb_callbacks))
;
htp_status_t contract_c06_req_decompress(htp_decompressor_t *drec, htp_tx_data_t *d)
__CPROVER_requires(__CPROVER_rw_ok(drec, sizeof(*drec)) && __CPROVER_r_ok(d, sizeof(*d)) && __CPROVER_rw_ok(d->tx, sizeof(htp_tx_t)) && g_c06_dz.n >= 0 && g_c06_dz.n < 4)
__CPROVER_assigns(g_c06_dz, d->tx->request_entity_len, drec->nb_callbacks, drec->time_spent, drec->time_before, drec->passthrough)
__CPROVER_ensures(g_c06_dz.n == O(g_c06_dz.n) + 1 && g_c06_dz.drec == (const void *) drec && g_c06_dz.ptr == d->data &&
    g_c06_dz.len == d->len && g_c06_dz.tx == (const void *) d->tx && g_c06_dz.last == d->is_last && g_c06_dz.nbcb == O(drec->nb_callbacks))
;
/* tear-down stubs at this call site: log how many decompressor calls had happened before */
void contract_c06_res_destroy_decompressors_sink(htp_connp_t *connp)
__CPROVER_requires(__CPROVER_rw_ok(connp, sizeof(*connp)) && g_c06_destroyed >= 0 && g_c06_destroyed < 4)
__CPROVER_assigns(connp->out_decompressor, g_c06_destroyed, g_c06_destroy_seq)
__CPROVER_ensures(connp->out_decompressor == NULL && g_c06_destroyed == O(g_c06_destroyed) + 1 && g_c06_destroy_seq == (size_t) g_c06_dz.n)
;
void contract_c06_req_destroy_decompressors_sink(htp_connp_t *connp)
__CPROVER_requires(__CPROVER_rw_ok(connp, sizeof(*connp)) && g_c06_destroyed >= 0 && g_c06_destroyed < 4)
__CPROVER_assigns(connp->req_decompressor, g_c06_destroyed, g_c06_destroy_seq)
__CPROVER_ensures(connp->req_decompressor == NULL && g_c06_destroyed == O(g_c06_destroyed) + 1 && g_c06_destroy_seq == (size_t) g_c06_dz.n)
;
/* wall-clock helpers: any clock (the time-limit passthrough switch is not part of these claims) */
int contract_c06_gettimeofday(struct timeval *tv, void *tz)
__CPROVER_requires(__CPROVER_w_ok(tv, sizeof(*tv))) __CPROVER_assigns(*tv) __CPROVER_ensures(1);
htp_status_t contract_c06_timer_track(int32_t *time_spent, struct timeval *after, struct timeval *before)
__CPROVER_requires(__CPROVER_w_ok(time_spent, sizeof(*time_spent))) __CPROVER_assigns(*time_spent) __CPROVER_ensures(R == HTP_OK || R == HTP_ERROR);

#define C06_CODED(e) ((e) == HTP_COMPRESSION_GZIP || (e) == HTP_COMPRESSION_DEFLATE || (e) == HTP_COMPRESSION_LZMA)
#define C06_SINK_PRE(tx, DEC) (SINK_TX(tx) && __CPROVER_is_fresh((tx)->connp->cfg, sizeof(htp_cfg_t)) && \
    ((tx)->connp->DEC == NULL || __CPROVER_is_fresh((tx)->connp->DEC, sizeof(htp_decompressor_t))) && g_c06_dz.n == 0 && g_c06_destroyed == 0)
/* what the coded branch does, DEC = chain head field, ISLAST = the is_last flag the code documents for this side */
#define C06_SINK_CODED_POST(tx, DEC, data, len, ISLAST) ( \
    (O((tx)->connp->DEC) == NULL \
        ? (R == HTP_ERROR && g_c06_dz.n == 0 && g_c06_destroyed == 0 && (tx)->connp->DEC == NULL) \
        : (R == HTP_OK && g_c06_dz.n == 1 && g_c06_dz.drec == (const void *) O((tx)->connp->DEC) && g_c06_dz.ptr == (const unsigned char *)(data) && \
           g_c06_dz.len == (len) && g_c06_dz.tx == (const void *)(tx) && g_c06_dz.last == (ISLAST) && \
           ((data) == NULL ? (g_c06_destroyed == 1 && g_c06_destroy_seq == 1 && (tx)->connp->DEC == NULL) \
                           : (g_c06_destroyed == 0 && (tx)->connp->DEC == O((tx)->connp->DEC))))))

htp_status_t contract_c06_res_sink_coded(htp_tx_t *tx, const void *data, size_t len)
__CPROVER_requires(C06_SINK_PRE(tx, out_decompressor) && len <= CHUNK_CAP && tx->response_message_len >= 0 && tx->response_message_len <= OFFMAX + 2 * CHUNK_CAP)
__CPROVER_requires(tx->response_content_encoding_processing != HTP_COMPRESSION_NONE)
__CPROVER_assigns(g_c06_dz, g_c06_destroyed, g_c06_destroy_seq, tx->response_message_len, tx->response_entity_len, tx->connp->out_decompressor;
    tx->connp->out_decompressor != NULL: tx->connp->out_decompressor->nb_callbacks, tx->connp->out_decompressor->time_spent,
        tx->connp->out_decompressor->time_before, tx->connp->out_decompressor->passthrough)
/* wire bytes are counted before anything can fail */
__CPROVER_ensures(tx->response_message_len == O(tx->response_message_len) + (int64_t) len)
__CPROVER_ensures(C06_CODED(tx->response_content_encoding_processing) ==> C06_SINK_CODED_POST(tx, out_decompressor, data, len, 0))
/* the per-call callback counter that paces the time check starts from zero */
__CPROVER_ensures((C06_CODED(tx->response_content_encoding_processing) && g_c06_dz.n == 1) ==> g_c06_dz.nbcb == 0)
/* a value outside the enumeration is an internal error: refused, nothing delivered, nothing torn down */
__CPROVER_ensures(!C06_CODED(tx->response_content_encoding_processing) ==> (R == HTP_ERROR && g_c06_dz.n == 0 && g_c06_destroyed == 0 &&
    tx->response_entity_len == O(tx->response_entity_len) && tx->connp->out_decompressor == O(tx->connp->out_decompressor)))
__CPROVER_ensures(tx->response_content_encoding_processing == O(tx->response_content_encoding_processing))
;
htp_status_t contract_c06_req_sink_coded(htp_tx_t *tx, const void *data, size_t len)
__CPROVER_requires(C06_SINK_PRE(tx, req_decompressor) && len <= CHUNK_CAP)
__CPROVER_requires(tx->request_content_encoding != HTP_COMPRESSION_NONE && tx->request_content_encoding != HTP_COMPRESSION_UNKNOWN)
__CPROVER_assigns(g_c06_dz, g_c06_destroyed, g_c06_destroy_seq, tx->request_entity_len, tx->connp->req_decompressor;
    tx->connp->req_decompressor != NULL: tx->connp->req_decompressor->nb_callbacks, tx->connp->req_decompressor->time_spent,
        tx->connp->req_decompressor->time_before, tx->connp->req_decompressor->passthrough)
__CPROVER_ensures(C06_CODED(tx->request_content_encoding) ==> C06_SINK_CODED_POST(tx, req_decompressor, data, len, (data == NULL && len == 0)))
__CPROVER_ensures(!C06_CODED(tx->request_content_encoding) ==> (R == HTP_ERROR && g_c06_dz.n == 0 && g_c06_destroyed == 0 &&
    tx->request_entity_len == O(tx->request_entity_len) && tx->connp->req_decompressor == O(tx->connp->req_decompressor)))
__CPROVER_ensures(tx->request_content_encoding == O(tx->request_content_encoding))
;

/* ==== small accessors the parser and the content handlers rely on ===================================================================== */
/* C06: "for a message that has a body an end-of-body marker is delivered": the predicate the request state machine uses */
int contract_htp_tx_req_has_body(const htp_tx_t *tx)
__CPROVER_requires(tx == NULL || __CPROVER_is_fresh(tx, sizeof(*tx)))
__CPROVER_assigns()
__CPROVER_ensures(tx == NULL ? R == -1 : R == ((tx->request_transfer_coding == HTP_CODING_IDENTITY || tx->request_transfer_coding == HTP_CODING_CHUNKED) ? 1 : 0))
;

/* ==== public (hybrid-mode) entries of the body sinks: guards only ====================================================================== */
/* C06: an empty block is NOT an end-of-body marker on the public entry: nothing is delivered, nothing is counted; NULL arguments are refused */
#define C06_PUB_POST(tx, data, len) ( \
    (((tx) == NULL || (data) == NULL) ==> (R == HTP_ERROR && g_body_n == 0)) && \
    (((tx) != NULL && (data) != NULL && (len) == 0) ==> (R == HTP_OK && g_body_n == 0)) && \
    (((tx) != NULL && (data) != NULL && (len) > 0) ==> (g_body_n == 1 && g_body_ptr == (const unsigned char *)(data) && g_body_len == (len) && R == g_body_rc)))
htp_status_t contract_htp_tx_req_process_body_data(htp_tx_t *tx, const void *data, size_t len)
__CPROVER_requires((tx == NULL || __CPROVER_is_fresh(tx, sizeof(*tx))) && len <= CHUNK_CAP && (data == NULL || __CPROVER_is_fresh(data, len)) && g_body_n == 0)
__CPROVER_assigns(BODY_LOG_ASSIGNS; tx != NULL: tx->request_entity_len)
__CPROVER_ensures(C06_PUB_POST(tx, data, len))
__CPROVER_ensures((tx != NULL && g_body_n == 0) ==> tx->request_entity_len == O(tx->request_entity_len))
;
htp_status_t contract_htp_tx_res_process_body_data(htp_tx_t *tx, const void *data, size_t len)
__CPROVER_requires((tx == NULL || (__CPROVER_is_fresh(tx, sizeof(*tx)) && tx->response_message_len >= 0 && tx->response_message_len <= OFFMAX)) && len <= CHUNK_CAP &&
                   (data == NULL || __CPROVER_is_fresh(data, len)) && g_body_n == 0)
__CPROVER_assigns(BODY_LOG_ASSIGNS; tx != NULL: tx->response_entity_len, tx->response_message_len)
__CPROVER_ensures(C06_PUB_POST(tx, data, len))
__CPROVER_ensures((tx != NULL && g_body_n == 0) ==> (tx->response_entity_len == O(tx->response_entity_len) && tx->response_message_len == O(tx->response_message_len)))
__CPROVER_ensures((tx != NULL && g_body_n == 1) ==> tx->response_message_len == O(tx->response_message_len) + (int64_t) len)
;

/* ---- get_token enforced on the real code ------------------------------------------------------------------------------------------- */
int contract_get_token(const unsigned char *in, size_t in_len, const char *seps, unsigned char **ret_tok_ptr, size_t *ret_tok_len)
__CPROVER_requires(in_len <= C06_TOK_CAP && __CPROVER_is_fresh(in, in_len) && __CPROVER_is_fresh(seps, 3) && seps[0] == ',' && seps[1] == ' ' && seps[2] == 0)
__CPROVER_requires(__CPROVER_is_fresh(ret_tok_ptr, sizeof(*ret_tok_ptr)) && __CPROVER_is_fresh(ret_tok_len, sizeof(*ret_tok_len)))
__CPROVER_assigns(*ret_tok_ptr, *ret_tok_len)
__CPROVER_ensures(C06_GET_TOKEN_POST(in, in_len, *ret_tok_ptr, *ret_tok_len))
__CPROVER_ensures(R == 0 ==> (*ret_tok_ptr == O(*ret_tok_ptr) && *ret_tok_len == O(*ret_tok_len)))
/* the token is the MAXIMAL separator-free run after the leading separators (gk = arbitrary witness index) */
#define C06_IS_SEP(c, seps) C06_SEP2(c, seps)
__CPROVER_ensures((R == 1 && gk < *ret_tok_len) ==> !C06_IS_SEP((*ret_tok_ptr)[gk], seps))
__CPROVER_ensures((R == 1 && gk < (size_t)(*ret_tok_ptr - in)) ==> C06_IS_SEP(in[gk], seps))
__CPROVER_ensures(R == 1 ==> ((size_t)(*ret_tok_ptr - in) + *ret_tok_len == in_len || C06_IS_SEP((*ret_tok_ptr)[*ret_tok_len], seps)))
__CPROVER_ensures((R == 0 && gk < in_len) ==> C06_IS_SEP(in[gk], seps))
;
#endif
