/* Ghost state of the line-oriented RESPONSE states under contract (units/sm_resline.py, contracts/sm_resline.h):
 * htp_connp_RES_LINE, htp_connp_RES_FINALIZE, htp_connp_RES_HEADERS.  Must precede the real sources (loop invariants name these).
 *
 * Prophecy ghosts (havocked once at entry, never assigned; the stubs of REPLACED callees answer with them):
 *   g_rl_ign        what htp_connp_is_line_ignorable answers (RES_LINE; called at most once per invocation)
 *   g_rl_asbody     what htp_treat_response_line_as_body answers (RES_LINE and RES_FINALIZE; at most once per invocation)
 *   g_rl_chomp      what htp_chomp returns in RES_LINE (0..2: the class of the removed terminator, see unit htp_chomp)
 * Log ghosts (0 on entry, written by stubs only):
 *   g_rl_free_n     number of bstr_free calls (each on a live heap object: the stub insists on is_freeable)
 *   g_rl_parse_n    sticky flag: cfg->parse_response_line ran
 *   g_rl_dup_n      sticky flag: bstr_dup_mem ran;  g_rl_dup_len its length argument
 *   g_rl_cplt_n     sticky flag: htp_tx_state_response_complete_ex ran (RES_FINALIZE);  g_rl_cplt_rc its result
 *   g_rl_line_len   *len after htp_chomp (RES_LINE)
 *   g_rh_*, g_rl_buffered   reserved for a dfcc contract on htp_connp_RES_HEADERS (not written yet; see notes/sm_resline.md) */
#ifndef GHOST_C10_H
#define GHOST_C10_H
#define GHOSTS_C10(X) \
    X(int, g_rl_ign) X(int, g_rl_asbody) X(int, g_rl_chomp) \
    X(size_t, g_rl_free_n) X(size_t, g_rl_parse_n) X(size_t, g_rl_dup_n) X(size_t, g_rl_dup_len) X(size_t, g_rl_cplt_n) X(int, g_rl_cplt_rc) X(size_t, g_rl_line_len) \
    X(int, g_rl_parse_rc) X(size_t, g_rl_buffered) \
    X(size_t, g_rh_proc_n) X(size_t, g_rh_add_n) X(size_t, g_rh_add_pending) X(size_t, g_rh_free_n) X(size_t, g_rh_fclr_n) X(size_t, g_rh_hook_n) X(size_t, g_rh_dup_n) X(size_t, g_rh_term_n) X(int, g_rh_fclr_rc) X(int, g_rh_hook_rc)
/* stream offset bookkeeping of a copy loop: offset == entry + bytes read (usable in loop invariants) */
#define RL_SOFF_INV(c) ((c)->out_stream_offset == __CPROVER_loop_entry((c)->out_stream_offset) + ((c)->out_current_read_offset - __CPROVER_loop_entry((c)->out_current_read_offset)))
#define RL_READ_INV(c) ((c)->out_current_read_offset >= __CPROVER_loop_entry((c)->out_current_read_offset) && (c)->out_current_read_offset <= (c)->out_current_len)
/* witness is a position of the chunk read since loop entry */
#define RL_GK_READ(c) (gk < CHUNK_CAP && (int64_t) gk >= __CPROVER_loop_entry((c)->out_current_read_offset) && (int64_t) gk < (c)->out_current_read_offset)
/* ---- vocabulary of the RES_HEADERS loop contract (units/sm_reshdr.py, contracts/sm_reshdr.h; must precede the real sources) ----
 * Only the LENGTH of the pending (possibly folded) response header is modelled: NULL, the bstr header pending on entry, or the model's ONE static
 * header object rh_hdr_obj (dfcc forbids malloc / free inside a loop contract; at most one header is pending at a time).  The POINTER is havocked by
 * the loop contract, so the invariant pins it by equalities (rw_ok on a havocked pointer trips --pointer-primitive-check).
 * Ghosts of that unit (sticky flags / logs, 0 on entry, written by the stub of htp_connp_res_receiver_finalize_clear and by the C model of htp_hook_run_all only):
 *   g_rh_fclr_n / g_rh_fclr_rc   the receiver finalisation ran / what it answered;   g_rh_hook_n / g_rh_hook_rc   the RESPONSE_TRAILER hook ran / what it answered
 * (the other reserved g_rh_* names are unused: the C10 / C05 facts inside the loop are assertions in the C models, not logs) */
struct bstr_t; extern struct bstr_t rh_hdr_obj;
#define RH_HBOUND ((size_t) HTP_MAX_HEADER_FOLDED + LINE_CAP)
#define RH_HDR_INV(h) ((h) == NULL || (__CPROVER_rw_ok((h), sizeof(bstr)) && (h)->len < RH_HBOUND))
#define RH_HDR_LOOP_INV(c) ((c)->out_header == NULL || (c)->out_header == __CPROVER_loop_entry((c)->out_header) || (c)->out_header == &rh_hdr_obj)
#define RH_HDR_LEN_INV(c) ((c)->out_header == NULL || (c)->out_header->len < RH_HBOUND)
/* what one pass over the line loop may write: the read side of the cursor, the consume offset (consolidate / clear / the LFCRCRLF skip), the buffer,
 * the pending header POINTER, one transaction flag word, the two line-ending locals and the model's header object (NO ghosts) */
#define RH_LOOP_ASSIGNS(c) (c)->out_next_byte, (c)->out_current_read_offset, (c)->out_stream_offset, (c)->out_current_consume_offset, \
    (c)->out_buf, (c)->out_buf_size, (c)->out_header, (c)->out_tx->flags, lfcrending, endwithcr, rh_hdr_obj
#define RH_CONSUME_INV(c) (0 <= (c)->out_current_consume_offset && (c)->out_current_consume_offset <= (c)->out_current_read_offset)
#endif
