/* Contracts for htp_table.c: insertion-ordered multimap over the list (C17).
 * Pair i of the table = (VIEW(list, 2i), VIEW(list, 2i+1)).
 * Lookups: the key comparator is REPLACED by a call-logging stub, so "first match" is stated over the
 * sequence of comparator calls: keys are visited in pair order, every comparison before the last was
 * non-zero, and the result is the element paired with the last compared key iff that comparison was 0. */
#ifndef C17_TABLE_H
#define C17_TABLE_H
#include "c17_list.h"

#define WF_TABLE_PRE(t) (__CPROVER_is_fresh((t), sizeof(htp_table_t)) && TL(t)->max_size >= 1 && TL(t)->max_size <= LCAP && \
    __CPROVER_is_fresh(TL(t)->elements, TL(t)->max_size * sizeof(void *)) && WF_LIST_FIELDS(TL(t)) && \
    TL(t)->current_size % 2 == 0 && (t)->alloc_type >= HTP_TABLE_KEYS_ALLOC_UKNOWN && (t)->alloc_type <= HTP_TABLE_KEYS_REFERENCED)

/* comparator stubs (replace mode only): any result, call logged */
#define CMP_LOG_POST(k) (g_cmp_n == __CPROVER_old(g_cmp_n) + 1 && g_last_key == (const void *)(k) && g_last_res == __CPROVER_return_value && \
    (__CPROVER_old(g_cmp_n) == gk ? (g_wit_key == (const void *)(k) && g_wit_res == __CPROVER_return_value) \
                                  : (g_wit_key == __CPROVER_old(g_wit_key) && g_wit_res == __CPROVER_old(g_wit_res))))
int contract_bstr_cmp_nocase(const bstr *b1, const bstr *b2)
__CPROVER_requires(g_cmp_n < LCAP)
__CPROVER_assigns(CMP_LOG_ASSIGNS) __CPROVER_ensures(CMP_LOG_POST(b1));
int contract_bstr_cmp_c_nocasenorzero(const bstr *b, const char *c)
__CPROVER_requires(g_cmp_n < LCAP)
__CPROVER_assigns(CMP_LOG_ASSIGNS) __CPROVER_ensures(CMP_LOG_POST(b));
int contract_bstr_cmp_mem_nocase(const bstr *b, const void *data, size_t len)
__CPROVER_requires(g_cmp_n < LCAP)
__CPROVER_assigns(CMP_LOG_ASSIGNS) __CPROVER_ensures(CMP_LOG_POST(b));

/* first-match law over the call log */
#define GET_POST(t, r) ( \
    g_cmp_n <= NPAIRS(t) && \
    /* keys were visited in pair order: the gk-th comparison looked at the gk-th key */ \
    (gk < g_cmp_n ==> (g_wit_key == VIEW(TL(t), 2 * gk) && (gk + 1 < g_cmp_n ==> g_wit_res != 0))) && \
    (g_cmp_n > 0 ==> g_last_key == VIEW(TL(t), 2 * (g_cmp_n - 1))) && \
    /* hit: the last comparison was 0 and the result is its partner */ \
    ((g_cmp_n > 0 && g_last_res == 0) ==> (r) == VIEW(TL(t), 2 * (g_cmp_n - 1) + 1)) && \
    /* miss: every key was compared and none matched */ \
    ((g_cmp_n == 0 || g_last_res != 0) ==> ((r) == NULL && g_cmp_n == NPAIRS(t))))

void *contract_htp_table_get(const htp_table_t *table, const bstr *key)
__CPROVER_requires(WF_TABLE_PRE(table) && key != NULL && g_cmp_n == 0)
__CPROVER_assigns(CMP_LOG_ASSIGNS)
__CPROVER_ensures(GET_POST(table, __CPROVER_return_value))
;
void *contract_htp_table_get_c(const htp_table_t *table, const char *ckey)
__CPROVER_requires(WF_TABLE_PRE(table) && ckey != NULL && g_cmp_n == 0)
__CPROVER_assigns(CMP_LOG_ASSIGNS)
__CPROVER_ensures(GET_POST(table, __CPROVER_return_value))
;
void *contract_htp_table_get_mem(const htp_table_t *table, const void *key, size_t key_len)
__CPROVER_requires(WF_TABLE_PRE(table) && key != NULL && g_cmp_n == 0)
__CPROVER_assigns(CMP_LOG_ASSIGNS)
__CPROVER_ensures(GET_POST(table, __CPROVER_return_value))
;

void *contract_htp_table_get_index(const htp_table_t *table, size_t idx, bstr **key)
__CPROVER_requires(WF_TABLE_PRE(table) && (key == NULL || __CPROVER_is_fresh(key, sizeof(*key))))
__CPROVER_assigns(key != NULL: *key)
__CPROVER_ensures(idx < NPAIRS(table) ==> (__CPROVER_return_value == VIEW(TL(table), 2 * idx + 1) && (key != NULL ==> *key == VIEW(TL(table), 2 * idx))))
__CPROVER_ensures(idx >= NPAIRS(table) ==> __CPROVER_return_value == NULL)
;

size_t contract_htp_table_size(const htp_table_t *table)
__CPROVER_requires(table == NULL || WF_TABLE_PRE(table))
__CPROVER_assigns()
__CPROVER_ensures(__CPROVER_return_value == (table == NULL ? 0 : NPAIRS(table)))
;

/* add family: appends exactly one (key, element) pair at the end, earlier pairs untouched; the three
 * key-ownership modes are mutually exclusive; failure leaves the view unchanged. */
#define ADD_PRE(t, key) (WF_TABLE_PRE(t) && key != NULL && gk < TL(t)->max_size && gj == TL(t)->current_size && TL(t)->max_size <= LCAP / 2)
#define ADD_POST_OK(t, o_cs, o_view_gk, k, e) ( \
    TL(t)->current_size == (o_cs) + 2 && VIEW(TL(t), (o_cs) + 1) == (void *)(e) && ((k) == NULL || VIEW(TL(t), (o_cs)) == (void *)(k)) && \
    (gk < (o_cs) ==> VIEW(TL(t), gk) == (o_view_gk)))
#define ADD_POST_ERR(t, o_cs, o_view_gk) (TL(t)->current_size == (o_cs) && (gk < (o_cs) ==> VIEW(TL(t), gk) == (o_view_gk)))

htp_status_t contract_htp_table_addn(htp_table_t *table, const bstr *key, const void *element)
__CPROVER_requires(ADD_PRE(table, key))
__CPROVER_assigns(table->alloc_type, TL(table)->first, TL(table)->last, TL(table)->max_size, TL(table)->current_size, TL(table)->elements, __CPROVER_object_whole(TL(table)->elements))
__CPROVER_frees(TL(table)->elements)
__CPROVER_ensures(__CPROVER_return_value == HTP_OK || __CPROVER_return_value == HTP_ERROR)
__CPROVER_ensures(__CPROVER_return_value == HTP_OK ==> (ADD_POST_OK(table, __CPROVER_old(TL(table)->current_size), __CPROVER_old(VIEW(TL(table), gk)), key, element) && table->alloc_type == HTP_TABLE_KEYS_ADOPTED))
__CPROVER_ensures(__CPROVER_return_value == HTP_ERROR ==> ADD_POST_ERR(table, __CPROVER_old(TL(table)->current_size), __CPROVER_old(VIEW(TL(table), gk))))
/* ownership protocol: a table that already uses another key mode refuses */
__CPROVER_ensures((__CPROVER_old(table->alloc_type) != HTP_TABLE_KEYS_ALLOC_UKNOWN && __CPROVER_old(table->alloc_type) != HTP_TABLE_KEYS_ADOPTED) ==> (__CPROVER_return_value == HTP_ERROR && table->alloc_type == __CPROVER_old(table->alloc_type)))
;
htp_status_t contract_htp_table_addk(htp_table_t *table, const bstr *key, const void *element)
__CPROVER_requires(ADD_PRE(table, key))
__CPROVER_assigns(table->alloc_type, TL(table)->first, TL(table)->last, TL(table)->max_size, TL(table)->current_size, TL(table)->elements, __CPROVER_object_whole(TL(table)->elements))
__CPROVER_frees(TL(table)->elements)
__CPROVER_ensures(__CPROVER_return_value == HTP_OK || __CPROVER_return_value == HTP_ERROR)
__CPROVER_ensures(__CPROVER_return_value == HTP_OK ==> (ADD_POST_OK(table, __CPROVER_old(TL(table)->current_size), __CPROVER_old(VIEW(TL(table), gk)), key, element) && table->alloc_type == HTP_TABLE_KEYS_REFERENCED))
__CPROVER_ensures(__CPROVER_return_value == HTP_ERROR ==> ADD_POST_ERR(table, __CPROVER_old(TL(table)->current_size), __CPROVER_old(VIEW(TL(table), gk))))
__CPROVER_ensures((__CPROVER_old(table->alloc_type) != HTP_TABLE_KEYS_ALLOC_UKNOWN && __CPROVER_old(table->alloc_type) != HTP_TABLE_KEYS_REFERENCED) ==> (__CPROVER_return_value == HTP_ERROR && table->alloc_type == __CPROVER_old(table->alloc_type)))
;

/* ---- clearing: key ownership (C17 / C18).  bstr_free is REPLACED by a call-logging stub (same log as the comparators): the gk-th call saw g_wit_key ---- */
void contract_c17log_bstr_free(bstr *b)
__CPROVER_requires(g_cmp_n < LCAP)
__CPROVER_assigns(CMP_LOG_ASSIGNS)
__CPROVER_ensures(g_cmp_n == __CPROVER_old(g_cmp_n) + 1 && g_last_key == (const void *) b &&
                  (__CPROVER_old(g_cmp_n) == gk ? g_wit_key == (const void *) b : g_wit_key == __CPROVER_old(g_wit_key)));
#define KEYS_OWNED(t) ((t)->alloc_type == HTP_TABLE_KEYS_COPIED || (t)->alloc_type == HTP_TABLE_KEYS_ADOPTED)
/* a table that owns its keys (copied / adopted) releases every key exactly once, in pair order, and never an element; a table that only
 * references its keys (or whose policy is still unknown) releases nothing; afterwards the table is empty and keeps its storage and policy */
void contract_htp_table_clear(htp_table_t *table)
__CPROVER_requires(WF_TABLE_PRE(table) && g_cmp_n == 0 && gk < LCAP && 2 * gk < TL(table)->max_size)
__CPROVER_assigns(CMP_LOG_ASSIGNS, TL(table)->first, TL(table)->last, TL(table)->current_size)
__CPROVER_ensures(TL(table)->current_size == 0 && TL(table)->max_size == __CPROVER_old(TL(table)->max_size) && TL(table)->elements == __CPROVER_old(TL(table)->elements) &&
                  table->alloc_type == __CPROVER_old(table->alloc_type))
__CPROVER_ensures(g_cmp_n == (KEYS_OWNED(table) ? __CPROVER_old(TL(table)->current_size) / 2 : 0))
__CPROVER_ensures((KEYS_OWNED(table) && 2 * gk < __CPROVER_old(TL(table)->current_size)) ==> g_wit_key == __CPROVER_old(VIEW(TL(table), 2 * gk)))
;
void contract_htp_table_clear_ex(htp_table_t *table)
__CPROVER_requires(WF_TABLE_PRE(table))
__CPROVER_assigns(TL(table)->first, TL(table)->last, TL(table)->current_size)
__CPROVER_ensures(TL(table)->current_size == 0 && TL(table)->max_size == __CPROVER_old(TL(table)->max_size) && TL(table)->elements == __CPROVER_old(TL(table)->elements))
;

/* a getter that calls a comparison other than its own (see units/c17_table.py getu) */
int contract_wrongcmp_bstr_cmp_nocase(const bstr *b1, const bstr *b2) __CPROVER_requires(0) __CPROVER_assigns() __CPROVER_ensures(1);
int contract_wrongcmp_bstr_cmp_c_nocasenorzero(const bstr *b, const char *c) __CPROVER_requires(0) __CPROVER_assigns() __CPROVER_ensures(1);
int contract_wrongcmp_bstr_cmp_mem_nocase(const bstr *b, const void *data, size_t len) __CPROVER_requires(0) __CPROVER_assigns() __CPROVER_ensures(1);
int contract_wrongcmp_bstr_cmp_c_nocase(const bstr *b, const char *c) __CPROVER_requires(0) __CPROVER_assigns() __CPROVER_ensures(1);
int contract_wrongcmp_bstr_cmp(const bstr *b1, const bstr *b2) __CPROVER_requires(0) __CPROVER_assigns() __CPROVER_ensures(1);
int contract_wrongcmp_bstr_cmp_c(const bstr *b, const char *c) __CPROVER_requires(0) __CPROVER_assigns() __CPROVER_ensures(1);
int contract_wrongcmp_bstr_cmp_mem(const bstr *b, const void *data, size_t len) __CPROVER_requires(0) __CPROVER_assigns() __CPROVER_ensures(1);
#endif
