/* Ghost state of the UNBOUNDED (loop-contract) units for the URI splitter, property C13 (units/c13_unb.py, contracts/c13_unb.h).
 * Included BEFORE the real sources (through ghost.h), so loop invariants may use everything defined here.
 * (The file name ghost_c03.h / list name GHOSTS_C03 is only the free fragment slot assigned to builder-uri; the content is C13.)
 *
 * Coordinates: every offset below is ABSOLUTE = relative to the first byte of the input string (bstr_ptr of the argument), also after
 * htp_parse_hostport moved its local `data` past the leading white space (g_u_toff) - the witness indices gk / gj are in the same
 * system everywhere (HOWTO 4).
 *
 *   g_u_base / g_u_len      the input bytes (address only compared / subtracted, never dereferenced) and their number
 *   g_u_toff / g_u_tlen     htp_parse_hostport: offset and length of the white-space-trimmed part (logged by the trim stub)
 *   g_u_d1, g_u_d2          sticky: first / second bstr_dup_mem call of htp_parse_hostport happened (host, then port text)
 *   g_u_o1,l1 / g_u_o2,l2   source offset / length of that call;  g_u_r1 / g_u_r2 what it answered (identity only)
 *   g_u_f1                  sticky: bstr_free was called on the first duplicate
 *   g_u_pp, g_u_ppo, g_u_ppl   sticky: htp_parse_port was called, and on which range
 *   g_u_low                 sticky: bstr_to_lowercase was applied (to the first duplicate - asserted at the call)
 *   g_u_mi                  memchr stub: index of the reported occurrence (existential witness)
 *
 * htp_parse_uri: ONE scalar record per component X = s (scheme) u (user) w (password) h (host) t (port) p (path) q (query) f (fragment):
 *   g_u_c<X>                sticky: a duplication was labelled X;   g_u_o<X> / g_u_l<X> its source offset / length;  g_u_r<X> its answer
 *   g_u_which               the label the stub gives the current call: chosen NON-DETERMINISTICALLY (a replaced callee cannot see which
 *                           field of the uri its caller is about to fill).  The contract of htp_parse_uri then speaks about the one
 *                           labelling that is CONSISTENT with where the answers ended up (uri->X == g_u_r<X> for every X), see c13_unb.h
 *   g_u_clash               sticky: two calls got the same label (such labellings are not consistent)
 *   g_u_prealloc            the caller passed an (empty) uri structure / passed NULL
 * htp_parse_uri_hostport:   g_u_hrc / g_u_hinv what the replaced htp_parse_hostport returned / stored in `invalid`;
 *                           g_u_valc sticky: htp_validate_hostname was called, g_u_val its answer
 */
#ifndef GHOST_C03_H
#define GHOST_C03_H
/* The provenance logs are STRUCTS of scalars: dfcc checks "callee frame included in caller frame" per assigns TARGET at every replaced
 * call; with one target per scalar (34 for the uri log) symex of the 13 bstr_dup_mem call sites did not finish in 400 s. */
typedef struct { int d1, d2; size_t o1, l1, o2, l2; const void *r1, *r2; } u_hplog_t;
typedef struct { int which, clash;
                 int cs, cu, cw, ch, ct, cp, cq, cf;
                 size_t os, ls, ou, lu, ow, lw, oh, lh, ot, lt, op, lp, oq, lq, of, lf;
                 const void *rs, *ru, *rw, *rh, *rt, *rp, *rq, *rf; } u_urilog_t;
#define GHOSTS_C03(X) \
    X(const void *, g_u_base) X(size_t, g_u_len) X(size_t, g_u_toff) X(size_t, g_u_tlen) \
    X(u_hplog_t, g_u_hp) X(int, g_u_f1) \
    X(int, g_u_pp) X(size_t, g_u_ppo) X(size_t, g_u_ppl) X(int, g_u_low) X(size_t, g_u_mi) \
    X(u_urilog_t, g_u_ul) X(_Bool, g_u_prealloc) \
    X(int, g_u_hrc) X(int, g_u_hinv) X(int, g_u_valc) X(int, g_u_val)
#define g_u_d1 g_u_hp.d1
#define g_u_d2 g_u_hp.d2
#define g_u_o1 g_u_hp.o1
#define g_u_l1 g_u_hp.l1
#define g_u_o2 g_u_hp.o2
#define g_u_l2 g_u_hp.l2
#define g_u_r1 g_u_hp.r1
#define g_u_r2 g_u_hp.r2
#define g_u_which g_u_ul.which
#define g_u_clash g_u_ul.clash
#define g_u_cs g_u_ul.cs
#define g_u_os g_u_ul.os
#define g_u_ls g_u_ul.ls
#define g_u_rs g_u_ul.rs
#define g_u_cu g_u_ul.cu
#define g_u_ou g_u_ul.ou
#define g_u_lu g_u_ul.lu
#define g_u_ru g_u_ul.ru
#define g_u_cw g_u_ul.cw
#define g_u_ow g_u_ul.ow
#define g_u_lw g_u_ul.lw
#define g_u_rw g_u_ul.rw
#define g_u_ch g_u_ul.ch
#define g_u_oh g_u_ul.oh
#define g_u_lh g_u_ul.lh
#define g_u_rh g_u_ul.rh
#define g_u_ct g_u_ul.ct
#define g_u_ot g_u_ul.ot
#define g_u_lt g_u_ul.lt
#define g_u_rt g_u_ul.rt
#define g_u_cp g_u_ul.cp
#define g_u_op g_u_ul.op
#define g_u_lp g_u_ul.lp
#define g_u_rp g_u_ul.rp
#define g_u_cq g_u_ul.cq
#define g_u_oq g_u_ul.oq
#define g_u_lq g_u_ul.lq
#define g_u_rq g_u_ul.rq
#define g_u_cf g_u_ul.cf
#define g_u_of g_u_ul.of
#define g_u_lf g_u_ul.lf
#define g_u_rf g_u_ul.rf

/* byte classes of the splitter's scanning loops, one table read per use (HOWTO 4) */
static const unsigned char u_aend[256] = { ['?'] = 1, ['/'] = 1, ['#'] = 1 };      /* end of the authority */
static const unsigned char u_pend[256] = { ['?'] = 1, ['#'] = 1 };                 /* end of the path */
#define U_AEND(c) (u_aend[(unsigned char) (c)])
#define U_PEND(c) (u_pend[(unsigned char) (c)])

/* offset of a pointer into the input, relative to the first input byte (pointer OFFSETS, not pointer relations: a loop-havocked
 * pointer fails the "pointer relation" checks of <= / >= inside an invariant before the invariant can constrain it) */
#define U_POFF(p) ((size_t) __CPROVER_POINTER_OFFSET(p))
#define U_OFF(p) (U_POFF(p) - U_POFF(g_u_base))
/* witness in the trimmed window of htp_parse_hostport: absolute index k lies at relative position k - g_u_toff */
#define U_REL(k) ((k) - g_u_toff)
#endif
