/* C18 — allocation failure: shared vocabulary of the ownership lemma harnesses (units/c18_alloc.py).
 * Included AFTER the real sources.  Nothing here is a contract in the dfcc sense: the C18 units are plain
 * harnesses `build state by hand ; call f ; run the REAL teardown`, with every malloc/calloc/realloc/strdup
 * allowed to fail independently (--malloc-may-fail --malloc-fail-null) and CBMC's pointer checks
 * (double free, use after free, free of non-heap / non-base pointer, + --memory-leak-check) as obligations. */
#ifndef C18_ALLOC_H
#define C18_ALLOC_H

/* an inline bstr with CONSTANT capacity n (constant at every call site) and nondet contents */
static bstr *c18_bstr(size_t n, const unsigned char *a) {
  bstr *b = malloc(sizeof(bstr) + n);
  if (b == NULL) return NULL;
  b->len = n; b->size = n; b->realptr = NULL;
  for (size_t i = 0; i < n; i++) ((unsigned char *) b + sizeof(bstr))[i] = a[i];
  return b;
}

/* Lists and tables of the harness state are built FIELD BY FIELD on the object itself, never through the library's
 * init functions: a write through a pointer to the embedded list (htp_list_array_init(&t->list, n)) defeats symex's constant
 * propagation, the next push then explores the growth path with symbolic sizes and the encoding explodes (16 GB).
 * CAP must be a constant.  The layout is exactly what htp_table_create / htp_list_array_init produce. */
#define C18_MK_LIST_FIELDS(l, CAP) ((l).first = 0, (l).last = 0, (l).current_size = 0, (l).max_size = (CAP))
#define C18_MK_TABLE(t, CAP) do { (t) = malloc(sizeof(htp_table_t)); if ((t) != NULL) { \
    (t)->list.elements = malloc((CAP) * sizeof(void *)); \
    if ((t)->list.elements == NULL) { free(t); (t) = NULL; } \
    else { C18_MK_LIST_FIELDS((t)->list, (CAP)); (t)->alloc_type = HTP_TABLE_KEYS_ALLOC_UKNOWN; } } } while (0)
#define C18_MK_LIST(l, CAP) do { (l) = malloc(sizeof(htp_list_array_t)); if ((l) != NULL) { \
    (l)->elements = malloc((CAP) * sizeof(void *)); \
    if ((l)->elements == NULL) { free(l); (l) = NULL; } else C18_MK_LIST_FIELDS(*(l), (CAP)); } } while (0)
/* append one (key, element) pair the way _htp_table_add does (no growth: the caller keeps within CAP) */
#define C18_TABLE_PUT(t, key, el, MODE) do { (t)->list.elements[(t)->list.last] = (void *) (key); (t)->list.elements[(t)->list.last + 1] = (void *) (el); \
    (t)->list.last += 2; (t)->list.current_size += 2; (t)->alloc_type = (MODE); } while (0)
#define C18_LIST_PUT(l, el) do { (l)->elements[(l)->last] = (void *) (el); (l)->last += 1; (l)->current_size += 1; } while (0)

/* CBMC 6.11 ships no memchr model ("no body for callee memchr") */
#if defined(C18_MEMCHR_MODEL) && !defined(VNATIVE)
void *memchr(const void *s, int c, size_t n) {
  const unsigned char *sp = (const unsigned char *) s;
  __CPROVER_assert(__CPROVER_r_ok(s, n), "memchr: region readable");
  for (size_t i = 0; i < n; i++) if (sp[i] == (unsigned char) c) return (void *) (sp + i);
  return NULL;
}
#endif

/* htp_validate_hostname (pure, allocation-free; its memcpy with a symbolic length out of a symbolic-size heap object does
 * not encode: 23 GB at 3 input bytes) is exchanged at its call sites with goto-instrument --replace-calls by this stand-in:
 * it requires the argument to be a LIVE bstr (so a freed host name is still caught) and answers arbitrarily. */
#if defined(C18_VALIDATE_HOSTNAME_STUB) && !defined(VNATIVE)
int c18_validate_hostname(bstr *h) {
  __CPROVER_assert(__CPROVER_r_ok(h, sizeof(bstr)) && __CPROVER_r_ok(h, sizeof(bstr) + h->len), "validated host name is a live bstr");
  int r; return r;
}
#endif

/* logging never feeds back into ownership: empty body where the unit does not link htp_util.c */
#if defined(C18_LOG_STUB)
void htp_log(htp_connp_t *connp, const char *file, int line, enum htp_log_level_t level, int code, const char *fmt, ...) { }
#endif

#endif
