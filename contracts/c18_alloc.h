/* C18 — allocation failure: shared vocabulary of the ownership lemma harnesses (units/c18_alloc.py).
 * Included AFTER the real sources.  Nothing here is a contract in the dfcc sense: the C18 units are plain
 * harnesses `build state by hand ; call f ; run the REAL teardown`, with every malloc/calloc/realloc/strdup
 * allowed to fail independently (--malloc-may-fail --malloc-fail-null) and CBMC's pointer checks
 * (double free, use after free, free of non-heap / non-base pointer, + --memory-leak-check) as obligations. */
#ifndef C18_ALLOC_H
#define C18_ALLOC_H

/* HOW THE HARNESS STATE IS BUILT (learned the hard way, see notes/c18.md):
 *  - with --malloc-may-fail a malloc result is `fail ? NULL : &object`.  symex narrows it to `&object` only when the
 *    pointer is tested ALONE (`if (p == NULL) { ...; return; }`, value-set filtering); after a compound test
 *    (`if (!a || !b) ...`) every write through p stays conditional (`p == &object ? v : old`), no field is a constant
 *    any more and every loop bounded by a field is unwound to the --unwind limit (htp_table_get_c on a one-entry
 *    table: 31 s and 1.4 GB instead of 0.26 s).  Hence: allocate the raw objects, then C18_NEED(p, cleanup) for each one.
 *  - initialise the fields in straight-line code on the objects themselves, not in a helper that returns
 *    "NULL or an initialised object" (its two branches merge at the exit: fields become `guard ? value : nondet`),
 *    and never through the library's init on an embedded list (htp_list_array_init(&t->list, n)).
 *  - malloc(sizeof(T)) + `*p = (T){0}`, not calloc: a calloc'ed object is a byte array, every field access a byte_extract.
 *  - all sizes are constants. */
#define C18_NEED(p, cleanup) if ((p) == NULL) { cleanup; return; }
#define C18_BSTR_RAW(n) ((bstr *) malloc(sizeof(bstr) + (n)))
#define C18_BSTR_INIT(b, n, a) do { (b)->len = (n); (b)->size = (n); (b)->realptr = NULL; \
    for (size_t i_ = 0; i_ < (n); i_++) ((unsigned char *) (b) + sizeof(bstr))[i_] = ((const unsigned char *) (a))[i_]; } while (0)
/* (function form: only where the result's fields need not stay constant) */
static bstr *c18_bstr(size_t n, const unsigned char *a) {
  bstr *b = malloc(sizeof(bstr) + n);
  if (b == NULL) return NULL;
  C18_BSTR_INIT(b, n, a);
  return b;
}
/* table = what htp_table_create(CAP/2) produces; list = htp_list_array_create(CAP).  CAP constant. */
#define C18_LIST_FIELDS(l, CAP) ((l).first = 0, (l).last = 0, (l).current_size = 0, (l).max_size = (CAP))
#define C18_ELEMS_RAW(CAP) ((void **) malloc((CAP) * sizeof(void *)))
#define C18_TABLE_INIT(t, elems, CAP) do { (t)->list.elements = (elems); C18_LIST_FIELDS((t)->list, (CAP)); (t)->alloc_type = HTP_TABLE_KEYS_ALLOC_UKNOWN; } while (0)
#define C18_LIST_INIT(l, elems, CAP) do { (l)->elements = (elems); C18_LIST_FIELDS(*(l), (CAP)); } while (0)
/* append one (key, element) pair the way _htp_table_add does (no growth: the caller keeps within CAP) */
#define C18_TABLE_PUT(t, key, el, MODE) do { (t)->list.elements[(t)->list.last] = (void *) (key); (t)->list.elements[(t)->list.last + 1] = (void *) (el); \
    (t)->list.last += 2; (t)->list.current_size += 2; (t)->alloc_type = (MODE); } while (0)
#define C18_LIST_PUT(l, el) do { (l)->elements[(l)->last] = (void *) (el); (l)->last += 1; (l)->current_size += 1; } while (0)

/* CBMC 6.11 ships no memchr model ("no body for callee memchr") */
#if defined(C18_MEMCHR_MODEL) && !defined(VNATIVE)
void *memchr(const void *s, int c, size_t n) {
  const unsigned char *sp = (const unsigned char *) s;
  __CPROVER_assert(__CPROVER_r_ok(s, n), "memchr: region readable");
  for (size_t i = 0; i < n; i++) if (sp[i] == (unsigned char) c) return (void *) (sp + i);
  return NULL;
}
#endif

/* Fixed-capacity stand-in for bstr_dup_mem, exchanged at the call sites with goto-instrument --replace-calls where the copy's
 * length is symbolic AND the copy is then rewritten in place (a symbolic-size heap object plus writes does not encode).
 * One allocation that may fail, an inline bstr with len == size == n, byte-identical copy: the ownership behaviour of the
 * real function (which unit c13_dup_model_lemma compares with the same model). */
#if defined(C18_DUPCAP) && !defined(VNATIVE)
bstr *c18_bstr_dup_mem(const void *data, size_t len) {
  __CPROVER_assert(len <= C18_DUPCAP && __CPROVER_r_ok(data, len), "dup: source readable, length within the model capacity");
  bstr *b = malloc(sizeof(bstr) + C18_DUPCAP); if (b == NULL) return NULL;
  b->len = len; b->size = len; b->realptr = NULL;
  for (size_t i = 0; i < C18_DUPCAP; i++) if (i < len) ((unsigned char *) b + sizeof(bstr))[i] = ((const unsigned char *) data)[i];
  return b;
}
#endif

/* htp_validate_hostname (pure, allocation-free; its memcpy with a symbolic length out of a symbolic-size heap object does
 * not encode: 23 GB at 3 input bytes) is exchanged at its call sites with goto-instrument --replace-calls by this stand-in:
 * it requires the argument to be a LIVE bstr (so a freed host name is still caught) and answers arbitrarily. */
#if defined(C18_VALIDATE_HOSTNAME_STUB) && !defined(VNATIVE)
int c18_validate_hostname(bstr *h) {
  __CPROVER_assert(__CPROVER_r_ok(h, sizeof(bstr)) && __CPROVER_r_ok(h, sizeof(bstr) + h->len), "validated host name is a live bstr");
  int r; return r;
}
#endif

/* logging never feeds back into ownership: empty body where the unit does not link htp_util.c */
#if defined(C18_LOG_STUB)
void htp_log(htp_connp_t *connp, const char *file, int line, enum htp_log_level_t level, int code, const char *fmt, ...) { }
#endif

#endif

/* ---- multipart body callback after the parser gave its strings to the transaction -------------------------------------------
 * Once gave_up_data == 1 the names and values of the text parts belong to tx->request_params.  Any further invocation (more body
 * bytes, or a SECOND end-of-body signal: a stream gap that reaches the end of the body is followed by the regular end-of-body call)
 * must be refused without touching the parser or the transaction: a second finalisation would add the same strings to the
 * parameter table again and they would be freed twice at teardown (C01 / C18). */
#ifdef C18_MPART_AFTER_GIVEUP
htp_status_t contract_never_htp_mpartp_parse(htp_mpartp_t *parser, const void *data, size_t len) __CPROVER_requires(0) __CPROVER_assigns() __CPROVER_ensures(1);
htp_status_t contract_never_htp_mpartp_finalize(htp_mpartp_t *parser) __CPROVER_requires(0) __CPROVER_assigns() __CPROVER_ensures(1);
htp_multipart_t *contract_never_htp_mpartp_get_multipart(htp_mpartp_t *parser) __CPROVER_requires(0) __CPROVER_assigns() __CPROVER_ensures(1);
size_t contract_never_htp_list_array_size(const htp_list_array_t *l) __CPROVER_requires(0) __CPROVER_assigns() __CPROVER_ensures(1);
void *contract_never_htp_list_array_get(const htp_list_array_t *l, size_t idx) __CPROVER_requires(0) __CPROVER_assigns() __CPROVER_ensures(1);
htp_status_t contract_never_htp_tx_req_add_param(htp_tx_t *tx, htp_param_t *param) __CPROVER_requires(0) __CPROVER_assigns() __CPROVER_ensures(1);
htp_status_t contract_htp_ch_multipart_callback_request_body_data(htp_tx_data_t *d)
__CPROVER_requires(__CPROVER_is_fresh(d, sizeof(*d)) && __CPROVER_is_fresh(d->tx, sizeof(htp_tx_t)) && __CPROVER_is_fresh(d->tx->request_mpartp, sizeof(htp_mpartp_t)))
__CPROVER_requires(d->tx->request_mpartp->gave_up_data == 1)
__CPROVER_assigns()
__CPROVER_ensures(__CPROVER_return_value == HTP_ERROR)
;
#endif
