/* C18 — allocation failure: shared vocabulary of the ownership lemma harnesses (units/c18_alloc.py).
 * Included AFTER the real sources.  Nothing here is a contract in the dfcc sense: the C18 units are plain
 * harnesses `build state by hand ; call f ; run the REAL teardown`, with every malloc/calloc/realloc/strdup
 * allowed to fail independently (--malloc-may-fail --malloc-fail-null) and CBMC's pointer checks
 * (double free, use after free, free of non-heap / non-base pointer, + --memory-leak-check) as obligations. */
#ifndef C18_ALLOC_H
#define C18_ALLOC_H

/* an inline bstr with CONSTANT capacity n (constant at every call site) and nondet contents */
static bstr *c18_bstr(size_t n, const unsigned char *a) {
  bstr *b = malloc(sizeof(bstr) + n);
  if (b == NULL) return NULL;
  b->len = n; b->size = n; b->realptr = NULL;
  for (size_t i = 0; i < n; i++) ((unsigned char *) b + sizeof(bstr))[i] = a[i];
  return b;
}

/* CBMC 6.11 ships no memchr model ("no body for callee memchr") */
#if defined(C18_MEMCHR_MODEL) && !defined(VNATIVE)
void *memchr(const void *s, int c, size_t n) {
  const unsigned char *sp = (const unsigned char *) s;
  __CPROVER_assert(__CPROVER_r_ok(s, n), "memchr: region readable");
  for (size_t i = 0; i < n; i++) if (sp[i] == (unsigned char) c) return (void *) (sp + i);
  return NULL;
}
#endif

/* htp_validate_hostname (pure, allocation-free; its memcpy with a symbolic length out of a symbolic-size heap object does
 * not encode: 23 GB at 3 input bytes) is exchanged at its call sites with goto-instrument --replace-calls by this stand-in:
 * it requires the argument to be a LIVE bstr (so a freed host name is still caught) and answers arbitrarily. */
#if defined(C18_VALIDATE_HOSTNAME_STUB) && !defined(VNATIVE)
int c18_validate_hostname(bstr *h) {
  __CPROVER_assert(__CPROVER_r_ok(h, sizeof(bstr)) && __CPROVER_r_ok(h, sizeof(bstr) + h->len), "validated host name is a live bstr");
  int r; return r;
}
#endif

/* logging never feeds back into ownership: empty body where the unit does not link htp_util.c */
#if defined(C18_LOG_STUB)
void htp_log(htp_connp_t *connp, const char *file, int line, enum htp_log_level_t level, int code, const char *fmt, ...) { }
#endif

#endif
