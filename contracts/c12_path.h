/* placeholder, filled below */
#ifndef C12_PATH_H
#define C12_PATH_H
#endif
