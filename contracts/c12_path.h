/* C12 - contracts and harness vocabulary for the path decoders / normaliser (htp_util.c).
 * Included AFTER the real sources.  Loop-invariant vocabulary lives in ghost_c12.h. */
#ifndef C12_PATH_H
#define C12_PATH_H

/* ---- legal values of the decoder switches (htp_config.h enums) -------------------------------- */
#define C12_UNWANTED_OK(x) ((x) == HTP_UNWANTED_IGNORE || (x) == HTP_UNWANTED_400 || (x) == HTP_UNWANTED_404)
#define C12_HANDLING_OK(x) ((x) == HTP_URL_DECODE_PRESERVE_PERCENT || (x) == HTP_URL_DECODE_REMOVE_PERCENT || (x) == HTP_URL_DECODE_PROCESS_INVALID)
/* every enum-typed switch holds one of its enumerators; boolean switches are unconstrained ints */
#define C12_DCFG_LEGAL(d) (C12_UNWANTED_OK((d)->path_separators_encoded_unwanted) && C12_UNWANTED_OK((d)->nul_raw_unwanted) && \
    C12_UNWANTED_OK((d)->control_chars_unwanted) && C12_UNWANTED_OK((d)->u_encoding_unwanted) && \
    C12_HANDLING_OK((d)->url_encoding_invalid_handling) && C12_UNWANTED_OK((d)->url_encoding_invalid_unwanted) && \
    C12_UNWANTED_OK((d)->nul_encoded_unwanted) && C12_UNWANTED_OK((d)->utf8_invalid_unwanted))

/* ---- bounded units: build the minimal tx/cfg the decoders touch from the scalar input struct ---- */
#ifdef PATH_REF_H
static htp_cfg_t c12_cfg;      /* static: all other fields are zero, natively and in CBMC */
static htp_tx_t c12_tx;
static void c12_setup(const ref_cfg_t *c, enum htp_decoder_ctx_t ctx, unsigned char *map, uint64_t flags0, int status0) {
    htp_decoder_cfg_t *d = &c12_cfg.decoder_cfgs[ctx];
    d->backslash_convert_slashes = c->backslash_convert_slashes;
    d->convert_lowercase = c->convert_lowercase;
    d->path_separators_compress = c->path_separators_compress;
    d->path_separators_decode = c->path_separators_decode;
    d->plusspace_decode = c->plusspace_decode;
    d->path_separators_encoded_unwanted = (enum htp_unwanted_t) c->path_separators_encoded_unwanted;
    d->nul_raw_terminates = c->nul_raw_terminates;
    d->nul_raw_unwanted = (enum htp_unwanted_t) c->nul_raw_unwanted;
    d->control_chars_unwanted = (enum htp_unwanted_t) c->control_chars_unwanted;
    d->u_encoding_decode = c->u_encoding_decode;
    d->u_encoding_unwanted = (enum htp_unwanted_t) c->u_encoding_unwanted;
    d->url_encoding_invalid_handling = (enum htp_url_encoding_handling_t) c->url_encoding_invalid_handling;
    d->url_encoding_invalid_unwanted = (enum htp_unwanted_t) c->url_encoding_invalid_unwanted;
    d->nul_encoded_terminates = c->nul_encoded_terminates;
    d->nul_encoded_unwanted = (enum htp_unwanted_t) c->nul_encoded_unwanted;
    d->utf8_invalid_unwanted = (enum htp_unwanted_t) c->utf8_invalid_unwanted;
    d->utf8_convert_bestfit = c->utf8_convert_bestfit;
    d->bestfit_map = map;
    d->bestfit_replacement_byte = c->bestfit_replacement_byte;
    c12_tx.cfg = &c12_cfg;
    c12_tx.flags = flags0;
    c12_tx.response_status_expected_number = status0;
}
#define C12_REFCFG_LEGAL(c) (C12_UNWANTED_OK((c).path_separators_encoded_unwanted) && C12_UNWANTED_OK((c).nul_raw_unwanted) && \
    C12_UNWANTED_OK((c).control_chars_unwanted) && C12_UNWANTED_OK((c).u_encoding_unwanted) && \
    C12_HANDLING_OK((c).url_encoding_invalid_handling) && C12_UNWANTED_OK((c).url_encoding_invalid_unwanted) && \
    C12_UNWANTED_OK((c).nul_encoded_unwanted) && C12_UNWANTED_OK((c).utf8_invalid_unwanted))
/* best-fit map used by a bounded unit: MAPK > 0: a SYMBOLIC map of up to MAPK triples (any content, forced 00 00
 * terminator in the last triple; an earlier 00 00 simply ends it sooner); MAPK == 0: the real bestfit_1252 of
 * htp_config.c (which must then be part of the translation unit) */
#if defined(MAPK) && MAPK > 0
#define C12_MAP in.map
#define C12_MAP_SETUP do { in.map[3 * MAPK] = 0; in.map[3 * MAPK + 1] = 0; } while (0)
#else
#define C12_MAP bestfit_1252
#define C12_MAP_SETUP do { } while (0)
#endif
/* the reference's indicator bits are the library's */
#define C12_FLAGS_AGREE (RF_PATH_ENCODED_NUL == HTP_PATH_ENCODED_NUL && RF_PATH_RAW_NUL == HTP_PATH_RAW_NUL && \
    RF_PATH_INVALID_ENCODING == HTP_PATH_INVALID_ENCODING && RF_PATH_OVERLONG_U == HTP_PATH_OVERLONG_U && \
    RF_PATH_ENCODED_SEPARATOR == HTP_PATH_ENCODED_SEPARATOR && RF_PATH_UTF8_VALID == HTP_PATH_UTF8_VALID && \
    RF_PATH_UTF8_INVALID == HTP_PATH_UTF8_INVALID && RF_PATH_UTF8_OVERLONG == HTP_PATH_UTF8_OVERLONG && \
    RF_PATH_HALF_FULL_RANGE == HTP_PATH_HALF_FULL_RANGE && RF_URLEN_ENCODED_NUL == HTP_URLEN_ENCODED_NUL && \
    RF_URLEN_INVALID_ENCODING == HTP_URLEN_INVALID_ENCODING && RF_URLEN_OVERLONG_U == HTP_URLEN_OVERLONG_U && \
    RF_URLEN_HALF_FULL_RANGE == HTP_URLEN_HALF_FULL_RANGE && RF_URLEN_RAW_NUL == HTP_URLEN_RAW_NUL && \
    RF_PRESERVE_PERCENT == HTP_URL_DECODE_PRESERVE_PERCENT && RF_REMOVE_PERCENT == HTP_URL_DECODE_REMOVE_PERCENT && \
    RF_PROCESS_INVALID == HTP_URL_DECODE_PROCESS_INVALID && RF_IGNORE == HTP_UNWANTED_IGNORE)
#endif

#endif
