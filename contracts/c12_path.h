/* C12 - contracts and harness vocabulary for the path decoders / normaliser (htp_util.c).
 * Included AFTER the real sources.  Loop-invariant vocabulary lives in ghost_c12.h. */
#ifndef C12_PATH_H
#define C12_PATH_H

/* ---- legal values of the decoder switches (htp_config.h enums) -------------------------------- */
#define C12_UNWANTED_OK(x) ((x) == HTP_UNWANTED_IGNORE || (x) == HTP_UNWANTED_400 || (x) == HTP_UNWANTED_404)
#define C12_HANDLING_OK(x) ((x) == HTP_URL_DECODE_PRESERVE_PERCENT || (x) == HTP_URL_DECODE_REMOVE_PERCENT || (x) == HTP_URL_DECODE_PROCESS_INVALID)
/* every enum-typed switch holds one of its enumerators; boolean switches are unconstrained ints */
#define C12_DCFG_LEGAL(d) (C12_UNWANTED_OK((d)->path_separators_encoded_unwanted) && C12_UNWANTED_OK((d)->nul_raw_unwanted) && \
    C12_UNWANTED_OK((d)->control_chars_unwanted) && C12_UNWANTED_OK((d)->u_encoding_unwanted) && \
    C12_HANDLING_OK((d)->url_encoding_invalid_handling) && C12_UNWANTED_OK((d)->url_encoding_invalid_unwanted) && \
    C12_UNWANTED_OK((d)->nul_encoded_unwanted) && C12_UNWANTED_OK((d)->utf8_invalid_unwanted))

/* ---- bounded units: build the minimal tx/cfg the decoders touch from the scalar input struct ---- */
#ifdef PATH_REF_H
static htp_cfg_t c12_cfg;      /* static: all other fields are zero, natively and in CBMC */
static htp_tx_t c12_tx;
static void c12_setup(const ref_cfg_t *c, enum htp_decoder_ctx_t ctx, unsigned char *map, uint64_t flags0, int status0) {
    htp_decoder_cfg_t *d = &c12_cfg.decoder_cfgs[ctx];
    d->backslash_convert_slashes = c->backslash_convert_slashes;
    d->convert_lowercase = c->convert_lowercase;
    d->path_separators_compress = c->path_separators_compress;
    d->path_separators_decode = c->path_separators_decode;
    d->plusspace_decode = c->plusspace_decode;
    d->path_separators_encoded_unwanted = (enum htp_unwanted_t) c->path_separators_encoded_unwanted;
    d->nul_raw_terminates = c->nul_raw_terminates;
    d->nul_raw_unwanted = (enum htp_unwanted_t) c->nul_raw_unwanted;
    d->control_chars_unwanted = (enum htp_unwanted_t) c->control_chars_unwanted;
    d->u_encoding_decode = c->u_encoding_decode;
    d->u_encoding_unwanted = (enum htp_unwanted_t) c->u_encoding_unwanted;
    d->url_encoding_invalid_handling = (enum htp_url_encoding_handling_t) c->url_encoding_invalid_handling;
    d->url_encoding_invalid_unwanted = (enum htp_unwanted_t) c->url_encoding_invalid_unwanted;
    d->nul_encoded_terminates = c->nul_encoded_terminates;
    d->nul_encoded_unwanted = (enum htp_unwanted_t) c->nul_encoded_unwanted;
    d->utf8_invalid_unwanted = (enum htp_unwanted_t) c->utf8_invalid_unwanted;
    d->utf8_convert_bestfit = c->utf8_convert_bestfit;
    d->bestfit_map = map;
    d->bestfit_replacement_byte = c->bestfit_replacement_byte;
    c12_tx.cfg = &c12_cfg;
    c12_tx.flags = flags0;
    c12_tx.response_status_expected_number = status0;
}
#define C12_REFCFG_LEGAL(c) (C12_UNWANTED_OK((c).path_separators_encoded_unwanted) && C12_UNWANTED_OK((c).nul_raw_unwanted) && \
    C12_UNWANTED_OK((c).control_chars_unwanted) && C12_UNWANTED_OK((c).u_encoding_unwanted) && \
    C12_HANDLING_OK((c).url_encoding_invalid_handling) && C12_UNWANTED_OK((c).url_encoding_invalid_unwanted) && \
    C12_UNWANTED_OK((c).nul_encoded_unwanted) && C12_UNWANTED_OK((c).utf8_invalid_unwanted))
/* best-fit map used by a bounded unit: MAPK > 0: a SYMBOLIC map of up to MAPK triples (any content, forced 00 00
 * terminator in the last triple; an earlier 00 00 simply ends it sooner); MAPK == 0: the real bestfit_1252 of
 * htp_config.c (which must then be part of the translation unit) */
#if defined(MAPK) && MAPK > 0
#define C12_MAP in.map
#define C12_MAP_SETUP do { in.map[3 * MAPK] = 0; in.map[3 * MAPK + 1] = 0; } while (0)
#else
#define C12_MAP bestfit_1252
#define C12_MAP_SETUP do { } while (0)
#endif
/* the reference's indicator bits are the library's */
#define C12_FLAGS_AGREE (RF_PATH_ENCODED_NUL == HTP_PATH_ENCODED_NUL && RF_PATH_RAW_NUL == HTP_PATH_RAW_NUL && \
    RF_PATH_INVALID_ENCODING == HTP_PATH_INVALID_ENCODING && RF_PATH_OVERLONG_U == HTP_PATH_OVERLONG_U && \
    RF_PATH_ENCODED_SEPARATOR == HTP_PATH_ENCODED_SEPARATOR && RF_PATH_UTF8_VALID == HTP_PATH_UTF8_VALID && \
    RF_PATH_UTF8_INVALID == HTP_PATH_UTF8_INVALID && RF_PATH_UTF8_OVERLONG == HTP_PATH_UTF8_OVERLONG && \
    RF_PATH_HALF_FULL_RANGE == HTP_PATH_HALF_FULL_RANGE && RF_URLEN_ENCODED_NUL == HTP_URLEN_ENCODED_NUL && \
    RF_URLEN_INVALID_ENCODING == HTP_URLEN_INVALID_ENCODING && RF_URLEN_OVERLONG_U == HTP_URLEN_OVERLONG_U && \
    RF_URLEN_HALF_FULL_RANGE == HTP_URLEN_HALF_FULL_RANGE && RF_URLEN_RAW_NUL == HTP_URLEN_RAW_NUL && \
    RF_PRESERVE_PERCENT == HTP_URL_DECODE_PRESERVE_PERCENT && RF_REMOVE_PERCENT == HTP_URL_DECODE_REMOVE_PERCENT && \
    RF_PROCESS_INVALID == HTP_URL_DECODE_PROCESS_INVALID && RF_IGNORE == HTP_UNWANTED_IGNORE)
#endif


/* ================= contract units (kind='contract'): in-place writers on an inline bstr of FIXED capacity WCAP ================= */
#define C12_WBSTR(b) (__CPROVER_is_fresh((b), sizeof(bstr) + WCAP) && (b)->realptr == NULL && (b)->size == WCAP && (b)->len <= WCAP)
#define C12_WDATA(b) __CPROVER_object_upto((unsigned char *) (b) + sizeof(bstr), WCAP)
#define C12_TX(tx) (__CPROVER_is_fresh((tx), sizeof(htp_tx_t)) && __CPROVER_is_fresh((tx)->cfg, sizeof(htp_cfg_t)))

/* RFC 3986 5.2.4 normaliser: memory safety, in-place discipline (loop invariants), no growth, frame, termination */
void contract_htp_normalize_uri_path_inplace(bstr *s)
__CPROVER_requires(s == NULL || C12_WBSTR(s))
__CPROVER_assigns(s != NULL: s->len, C12_WDATA(s))
__CPROVER_ensures(s != NULL ==> (s->len <= __CPROVER_old(s->len) && s->size == WCAP && s->realptr == NULL))
;

/* leaf callees of the decoders, replaced in the loop-carrying units (their own units: x2c, c12_u_decode_realmap) */
unsigned char contract_x2c(unsigned char *what)                 /* enforced (unit x2c) */
__CPROVER_requires(__CPROVER_is_fresh(what, 2))
__CPROVER_assigns()
__CPROVER_ensures(1)
;
unsigned char contract_x2c_site(unsigned char *what)            /* call-site form: interior pointer, two readable bytes */
__CPROVER_requires(__CPROVER_r_ok(what, 2))
__CPROVER_assigns()
__CPROVER_ensures(1)
;

uint8_t contract_decode_u_encoding_path(htp_cfg_t *cfg, htp_tx_t *tx, unsigned char *data)
__CPROVER_requires(__CPROVER_r_ok(data, 4) && __CPROVER_rw_ok(tx, sizeof(htp_tx_t)) && __CPROVER_r_ok(cfg, sizeof(htp_cfg_t)))
__CPROVER_assigns(tx->flags, tx->response_status_expected_number)
__CPROVER_ensures((tx->flags & __CPROVER_old(tx->flags)) == __CPROVER_old(tx->flags))
__CPROVER_ensures(tx->response_status_expected_number == __CPROVER_old(tx->response_status_expected_number) ||
                  (cfg->decoder_cfgs[HTP_DECODER_URL_PATH].u_encoding_unwanted != HTP_UNWANTED_IGNORE &&
                   tx->response_status_expected_number == (int) cfg->decoder_cfgs[HTP_DECODER_URL_PATH].u_encoding_unwanted))
;

uint8_t contract_decode_u_encoding_params(htp_cfg_t *cfg, enum htp_decoder_ctx_t ctx, unsigned char *data, uint64_t *flags)
__CPROVER_requires(__CPROVER_r_ok(data, 4) && __CPROVER_rw_ok(flags, sizeof(*flags)) && __CPROVER_r_ok(cfg, sizeof(htp_cfg_t)))
__CPROVER_assigns(*flags)
__CPROVER_ensures((*flags & __CPROVER_old(*flags)) == __CPROVER_old(*flags))
;

uint8_t contract_bestfit_codepoint(htp_cfg_t *cfg, enum htp_decoder_ctx_t ctx, uint32_t codepoint)
__CPROVER_requires(__CPROVER_r_ok(cfg, sizeof(htp_cfg_t)))
__CPROVER_assigns()
__CPROVER_ensures(1)
;

/* path decoder */
htp_status_t contract_htp_decode_path_inplace(htp_tx_t *tx, bstr *path)
__CPROVER_requires(C12_TX(tx) && C12_DCFG_LEGAL(&tx->cfg->decoder_cfgs[HTP_DECODER_URL_PATH]))
__CPROVER_requires(path == NULL || C12_WBSTR(path))
__CPROVER_requires(g12_flags0 == tx->flags && g12_status0 == tx->response_status_expected_number)
__CPROVER_assigns(tx->flags, tx->response_status_expected_number; path != NULL: path->len, C12_WDATA(path))
__CPROVER_ensures(path == NULL ? __CPROVER_return_value == HTP_ERROR : __CPROVER_return_value == HTP_OK)
__CPROVER_ensures(path != NULL ==> (path->len <= __CPROVER_old(path->len) && path->size == WCAP && path->realptr == NULL))
__CPROVER_ensures(C12_FLAGS_GROW(tx->flags))
__CPROVER_ensures(C12_STATUS_OK(tx->response_status_expected_number))
;

/* generic decoder */
htp_status_t contract_htp_urldecode_inplace_ex(htp_cfg_t *cfg, enum htp_decoder_ctx_t ctx, bstr *input, uint64_t *flags, int *expected_status_code)
__CPROVER_requires(__CPROVER_is_fresh(cfg, sizeof(htp_cfg_t)) && (ctx == HTP_DECODER_DEFAULTS || ctx == HTP_DECODER_URLENCODED || ctx == HTP_DECODER_URL_PATH))
__CPROVER_requires(C12_DCFG_LEGAL(&cfg->decoder_cfgs[ctx]))
__CPROVER_requires(__CPROVER_is_fresh(flags, sizeof(*flags)) && __CPROVER_is_fresh(expected_status_code, sizeof(*expected_status_code)))
__CPROVER_requires(input == NULL || C12_WBSTR(input))
__CPROVER_requires(g12_flags0 == *flags && g12_status0 == *expected_status_code)
__CPROVER_assigns(*flags, *expected_status_code; input != NULL: input->len, C12_WDATA(input))
__CPROVER_ensures(input == NULL ? __CPROVER_return_value == HTP_ERROR : __CPROVER_return_value == HTP_OK)
__CPROVER_ensures(input != NULL ==> (input->len <= __CPROVER_old(input->len) && input->size == WCAP && input->realptr == NULL))
__CPROVER_ensures(C12_FLAGS_GROW(*flags))
__CPROVER_ensures(C12_STATUS_OK(*expected_status_code))
;

/* UTF-8 stage */
void contract_htp_utf8_decode_path_inplace(htp_cfg_t *cfg, htp_tx_t *tx, bstr *path)
__CPROVER_requires(__CPROVER_is_fresh(cfg, sizeof(htp_cfg_t)) && __CPROVER_is_fresh(tx, sizeof(htp_tx_t)))
__CPROVER_requires(C12_DCFG_LEGAL(&cfg->decoder_cfgs[HTP_DECODER_URL_PATH]))
__CPROVER_requires(path == NULL || C12_WBSTR(path))
__CPROVER_requires(g12_flags0 == tx->flags && g12_status0 == tx->response_status_expected_number)
__CPROVER_assigns(tx->flags, tx->response_status_expected_number; path != NULL: path->len, C12_WDATA(path))
__CPROVER_ensures(path != NULL ==> (path->len <= __CPROVER_old(path->len) && path->size == WCAP && path->realptr == NULL))
__CPROVER_ensures(C12_FLAGS_GROW(tx->flags))
__CPROVER_ensures(C12_STATUS_OK(tx->response_status_expected_number))
;

void contract_htp_utf8_validate_path(htp_tx_t *tx, bstr *path)
__CPROVER_requires(__CPROVER_is_fresh(tx, sizeof(htp_tx_t)) && C12_WBSTR(path))
__CPROVER_requires(g12_flags0 == tx->flags)
__CPROVER_assigns(tx->flags)
__CPROVER_ensures(C12_FLAGS_GROW(tx->flags))
;

#endif
