/* Ghost state of the decompression layer (C07, containment part).  Updated only by the contracts of
 * REPLACED callees (downstream sink of a decompressor, zlib / LZMA entry points, decompressor factory, log). */
#ifndef GHOST_C07_H
#define GHOST_C07_H
#define GHOSTS_C07(X) \
    /* log stub */ \
    X(int, g_c07_log) X(int, g_c07_log_level) \
    /* sink stub (drec->super.callback / next layer): sticky "has been called", sticky "has failed", last result */ \
    X(int, g_c07_cb) X(int, g_c07_cb_failed) X(int, g_c07_cb_rc) \
    /* the three legal (ptr,len) shapes of one delivery, fixed at entry of decompress (compared, never dereferenced) */ \
    X(const unsigned char *, g_c07_buf) X(const unsigned char *, g_c07_in) X(size_t, g_c07_inlen) X(const void *, g_c07_tx) \
    /* entry state: the stream is dead (ended after an error and not in passthrough mode) */ \
    X(int, g_c07_dead) \
    /* bytes the sink still accepts before it reports a bomb (models the inequality proved for the real callbacks); termination only */ \
    X(size_t, g_c07_budget) \
    /* decompressor factory stub: layers created, LZMA layers created, failed flag */ \
    X(int, g_c07_made) X(int, g_c07_made_lzma) X(int, g_c07_make_failed) X(int, g_c07_destroyed)

#define C07_BUF 8192
/* z_stream cursor of a decompressor: output window inside the 8 KiB buffer, input window inside the caller's chunk.
 * Usable in loop invariants (locals drec, d of htp_gzip_decompressor_decompress). */
#define C07_OUT_OK(z) ((z)->stream.avail_out <= C07_BUF && (z)->stream.next_out == (z)->buffer + (C07_BUF - (z)->stream.avail_out))
#define C07_IN_OK(z, dd) ((z)->stream.avail_in <= (dd)->len && (z)->stream.next_in == (unsigned char *) (dd)->data + ((dd)->len - (z)->stream.avail_in))
#define C07_ZI_OK(z) ((z)->zlib_initialized >= 0 && (z)->zlib_initialized <= 4)
#endif
