/* Ghost state of the decompression layer (C07, containment part).  Updated only by the contracts of
 * REPLACED callees (downstream sink of a decompressor). */
#ifndef GHOST_C07_H
#define GHOST_C07_H
#define GHOSTS_C07(X) \
    /* sink stub (drec->super.callback / next layer): sticky "has been called", sticky "has failed", last result */ \
    X(int, g_c07_cb) X(int, g_c07_cb_failed) X(int, g_c07_cb_rc) X(const unsigned char *, g_c07_cb_ptr) X(size_t, g_c07_cb_len) X(int, g_c07_last) X(int, g_c07_eos) X(unsigned char *, g_c07_hdr) X(uint8_t *, g_c07_hlp) \
    /* the three legal (ptr,len) shapes of one delivery, fixed at entry of decompress (compared, never dereferenced) */ \
    X(const unsigned char *, g_c07_buf) X(const unsigned char *, g_c07_in) X(size_t, g_c07_inlen) X(const void *, g_c07_tx) \
    /* entry state: the stream is dead (ended after an error and not in passthrough mode) */ \
    X(int, g_c07_dead) \
    /* bytes the sink still accepts before it reports a bomb (models the inequality proved for the real callbacks); termination only */ \
    X(size_t, g_c07_budget)

#define C07_BUF 8192
/* z_stream cursor of a decompressor: output window inside the 8 KiB buffer, input window inside the caller's chunk.
 * Usable in loop invariants (locals drec, d of htp_gzip_decompressor_decompress). */
/* NOTE: the cursors are havocked by the loop contract and then only ASSUMED to be inside their windows, so inside the loop step their
 * points-to sets are unknown.  __CPROVER_pointer_equals would fix that but is rejected in loop invariants ("not side-effect free").
 * Consequence: nothing in the loop may dereference / havoc through next_in / next_out - the one memcpy from next_in is replaced by a
 * call-site contract (contract_c07_memcpy) and the stubs' frames do not list the output bytes. */
#define C07_OUT_OK(z) ((z)->stream.avail_out <= C07_BUF && (z)->stream.next_out == (z)->buffer + (C07_BUF - (z)->stream.avail_out))
#define C07_IN_OK(z, dd) ((z)->stream.avail_in <= (dd)->len && (z)->stream.next_in == (unsigned char *) (dd)->data + ((dd)->len - (z)->stream.avail_in))
#define C07_ZI_OK(z) ((z)->zlib_initialized >= 0 && (z)->zlib_initialized <= 4)
/* loop invariant of the inflate loop about a stream that was dead on entry: with the known finding carved out the output window is
 * not full (so the stale-buffer delivery at the loop top is unreachable); without the carve-out nothing is assumed and obligation
 * S4 of the sink fails at that call site */
#ifdef KNOWN_F_C07_STALE_REDELIVERY
#define C07_INV_DEAD(z) (g_c07_dead ==> (z)->stream.avail_out != 0)
#else
#define C07_INV_DEAD(z) 1
#endif
#endif
