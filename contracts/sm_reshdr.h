/* htp_connp_RES_HEADERS (htp_response.c) under the shared RESPONSE state contract: the contract CONTAINS RS_COMMON_POST (contracts/sm.h) as its last
 * ensures, so "enforced => shared state contract contract_res_state" holds syntactically (DESIGN 8.4).  This was the last state function that the response
 * driver only ASSUMED to meet it.  Twin of contract_qh_htp_connp_REQ_HEADERS (contracts/sm_reqline.h).
 * Loop vocabulary (RH_HBOUND, RH_HDR_*, RH_LOOP_ASSIGNS, RH_CONSUME_INV): contracts/ghost_c10.h.  Unit + C models: units/sm_reshdr.py.  Notes: notes/sm_reshdr.md. */
#ifndef SM_RESHDR_H
#define SM_RESHDR_H
#include "sm.h"
#define RH_R __CPROVER_return_value
#define RH_RC3(r) ((r) == HTP_OK || (r) == HTP_STOP || (r) == HTP_ERROR)

/* ---- stubs of the callees that live in htp_response.c itself (everything from other translation units is a small C model in the unit's `post`) ---- */
/* LEAN on purpose (HOWTO 9): no log ghosts inside the loop; what must hold at a call is in REQUIRES, which dfcc asserts at every call of every iteration */
htp_status_t contract_rh_consolidate(htp_connp_t *connp, unsigned char **data, size_t *len)
__CPROVER_requires(__CPROVER_rw_ok(connp, sizeof(*connp)) && __CPROVER_w_ok(data, sizeof(*data)) && __CPROVER_w_ok(len, sizeof(*len)))
__CPROVER_requires(RH_CONSUME_INV(connp))
__CPROVER_assigns(*data, *len, connp->out_buf, connp->out_buf_size, connp->out_current_consume_offset)
__CPROVER_ensures(RH_R == HTP_OK || RH_R == HTP_ERROR)
__CPROVER_ensures(RH_R == HTP_OK ==> (*len <= LINE_CAP && __CPROVER_is_fresh(*data, *len)))
/* (enforced on the real function: unit htp_connp_res_consolidate_data_rel) */
__CPROVER_ensures(connp->out_current_consume_offset == O(connp->out_current_consume_offset) || connp->out_current_consume_offset == connp->out_current_read_offset)
;
void contract_rh_clear_buffer(htp_connp_t *connp)
__CPROVER_requires(__CPROVER_rw_ok(connp, sizeof(*connp)))
__CPROVER_assigns(connp->out_buf, connp->out_buf_size, connp->out_current_consume_offset)
__CPROVER_ensures(connp->out_buf == NULL && connp->out_buf_size == 0 && connp->out_current_consume_offset == connp->out_current_read_offset)
;
/* receiver finalisation (raw trailer data callbacks), only on the two paths that END the block (never inside the natural loop):
 * C05: at most once per call, and only with no header pending (the pending one was processed and released before) */
htp_status_t contract_rh_fclr(htp_connp_t *connp)
__CPROVER_requires(__CPROVER_rw_ok(connp, sizeof(*connp)) && g_rh_fclr_n == 0 && g_rh_hook_n == 0 && connp->out_header == NULL)
/* the trailer block (not the header block) ends here: closed stream, or progress TRAILER */
__CPROVER_requires(connp->out_status == HTP_STREAM_CLOSED || (connp->out_tx->response_progress != HTP_RESPONSE_HEADERS && connp->out_buf == NULL &&
    connp->out_current_consume_offset == connp->out_current_read_offset))
__CPROVER_assigns(g_rh_fclr_n, g_rh_fclr_rc, connp->out_data_receiver_hook, connp->out_current_receiver_offset)
__CPROVER_ensures(g_rh_fclr_n == 1 && RH_RC3(RH_R) && g_rh_fclr_rc == RH_R && connp->out_data_receiver_hook == NULL)
__CPROVER_ensures(connp->out_current_receiver_offset == O(connp->out_current_receiver_offset) || connp->out_current_receiver_offset == connp->out_current_read_offset)
;

/* ==== htp_connp_RES_HEADERS: response header block, and trailer block after a chunked body ========================================== */
#define RH_FRAME(c) (c)->out_next_byte, (c)->out_current_read_offset, (c)->out_stream_offset, (c)->out_current_consume_offset, \
    (c)->out_buf, (c)->out_buf_size, (c)->out_header, (c)->out_tx->flags, rh_hdr_obj, \
    g_rh_fclr_n, g_rh_hook_n, g_rh_fclr_rc, g_rh_hook_rc, (c)->out_state, (c)->out_data_receiver_hook, (c)->out_current_receiver_offset
htp_status_t contract_htp_connp_RES_HEADERS(htp_connp_t *connp)
__CPROVER_requires(CUR_OUT(connp) && TX_OUT(connp) && !g_in_gap && RS_SELF(connp, htp_connp_RES_HEADERS) && __CPROVER_is_fresh(connp->cfg, sizeof(htp_cfg_t)))
/* personality hook: the generic header processor (the only implementation in the tree) */
__CPROVER_requires(connp->cfg->process_response_header == htp_process_response_header_generic)
__CPROVER_requires(g_rh_fclr_n == 0 && g_rh_hook_n == 0)
__CPROVER_requires(connp->out_header == NULL || (__CPROVER_is_fresh(connp->out_header, sizeof(bstr)) && connp->out_header->len < RH_HBOUND))
#ifdef RH_CASE
__CPROVER_requires(RH_CASE)
#endif
/* frame: response_progress, out_status, out_tx, the chunk, cfg, conn are NOT assignable */
__CPROVER_assigns(RH_FRAME(connp))
/* C09: documented codes only (STOP only out of the trailer callbacks); never HTP_DATA (an unfinished line must be BUFFERED by the driver, not dropped), never DATA_OTHER */
__CPROVER_ensures(RH_R == HTP_OK || RH_R == HTP_ERROR || RH_R == HTP_STOP || RH_R == HTP_DATA_BUFFER)
/* C09: the read cursor only moves forward and the stream offset grows by exactly the bytes read */
__CPROVER_ensures(connp->out_current_read_offset >= O(connp->out_current_read_offset) &&
    connp->out_stream_offset == O(connp->out_stream_offset) + (connp->out_current_read_offset - O(connp->out_current_read_offset)))
/* C10: the pending header stays below the documented cap plus the line that crossed it (the append itself is guarded: assertion in the bstr_add_mem model) */
__CPROVER_ensures(RH_HDR_INV(connp->out_header))
/* C03 (L2) / C09: more data is asked for only with the chunk exhausted, on an open stream, with no transition run: no receiver finalisation, no trailer hook, state unchanged */
__CPROVER_ensures(RH_R == HTP_DATA_BUFFER ==> (connp->out_current_read_offset == connp->out_current_len && connp->out_status != HTP_STREAM_CLOSED &&
    g_rh_fclr_n == 0 && g_rh_hook_n == 0 && connp->out_state == O(connp->out_state) &&
    connp->out_data_receiver_hook == O(connp->out_data_receiver_hook) && connp->out_current_receiver_offset == O(connp->out_current_receiver_offset)))
/* C05 / C06: the block ends exactly once: OK <=> the state moved; it moves to BODY_DETERMINE (header block, open stream, no trailer machinery run) or to
 * FINALIZE (trailer block or closed stream: receiver finalised, THEN the trailer hook, both exactly once, both answered OK); and only with no header pending */
__CPROVER_ensures(RH_R == HTP_OK ==> (connp->out_header == NULL && (connp->out_state == htp_connp_RES_BODY_DETERMINE || connp->out_state == htp_connp_RES_FINALIZE)))
__CPROVER_ensures(RH_R != HTP_OK ==> connp->out_state == O(connp->out_state))
__CPROVER_ensures((RH_R == HTP_OK && connp->out_state == htp_connp_RES_BODY_DETERMINE) ==> (connp->out_status != HTP_STREAM_CLOSED &&
    connp->out_tx->response_progress == HTP_RESPONSE_HEADERS && g_rh_fclr_n == 0 && g_rh_hook_n == 0))
__CPROVER_ensures((RH_R == HTP_OK && connp->out_state == htp_connp_RES_FINALIZE) ==> (g_rh_fclr_n == 1 && g_rh_hook_n == 1 &&
    (connp->out_status == HTP_STREAM_CLOSED || connp->out_tx->response_progress != HTP_RESPONSE_HEADERS)))
/* a refusal of either trailer step is returned unchanged and stops the block there: no hook after a refused finalisation, no state change after a refused hook */
__CPROVER_ensures(g_rh_fclr_n == 1 ==> (g_rh_hook_n == 1 ? (g_rh_fclr_rc == HTP_OK && RH_R == g_rh_hook_rc) : (g_rh_fclr_rc != HTP_OK && RH_R == g_rh_fclr_rc)))
__CPROVER_ensures(RH_R == HTP_STOP ==> g_rh_fclr_n == 1)
__CPROVER_ensures(g_rh_hook_n == 1 ==> g_rh_fclr_n == 1)
/* a line that ends the block on an open stream was consumed: nothing stays buffered, consume == read */
__CPROVER_ensures((RH_R == HTP_OK && connp->out_status != HTP_STREAM_CLOSED) ==> (connp->out_buf == NULL && connp->out_buf_size == 0 &&
    connp->out_current_consume_offset == connp->out_current_read_offset && connp->out_current_read_offset > O(connp->out_current_read_offset)))
/* a closed stream ends the block at once: nothing is read, never DATA_BUFFER, the cursor and the buffer are not touched */
__CPROVER_ensures(connp->out_status == HTP_STREAM_CLOSED ==> (connp->out_current_read_offset == O(connp->out_current_read_offset) && RH_R != HTP_DATA_BUFFER &&
    connp->out_current_consume_offset == O(connp->out_current_consume_offset) && connp->out_buf == O(connp->out_buf) && connp->out_tx->flags == O(connp->out_tx->flags) &&
    (g_rh_fclr_n == 1 || (RH_R == HTP_ERROR && O(connp->out_header) != NULL))))
/* the only transaction flag this state may raise is INVALID_FOLDING */
__CPROVER_ensures(connp->out_tx->flags == O(connp->out_tx->flags) || connp->out_tx->flags == (O(connp->out_tx->flags) | HTP_INVALID_FOLDING))
/* the raw-data receiver is only ever removed, and its offset only moves up to the read cursor */
__CPROVER_ensures(connp->out_data_receiver_hook == O(connp->out_data_receiver_hook) || (connp->out_data_receiver_hook == NULL && g_rh_fclr_n == 1))
__CPROVER_ensures(RS_COMMON_POST(connp))
;
#endif
