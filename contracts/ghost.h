/* Specification vocabulary that loop invariants refer to: must precede the real sources.
 * Macros and ghost globals only; nothing here generates code in the functions under proof. */
#ifndef GHOST_H
#define GHOST_H
#include "vtables.h"
/* Ghost globals.  Objects with static lifetime are zero-initialised in CBMC, so every ghost is
 * listed here once and havocked by the generated entry point before the harness body runs
 * (v_havoc_ghosts, vcommon.h).  A ghost that is not in this list would silently be 0. */
#define GHOSTS(X) \
    X(size_t, gk) X(size_t, gj) X(size_t, gi) X(size_t, g_canary) \
    X(size_t, g_cap) X(_Bool, g_wrapped) \
    X(size_t, g_trim_oldlen) \
    X(size_t, g_cmp_n) X(const void *, g_last_key) X(int, g_last_res) X(const void *, g_wit_key) X(int, g_wit_res)
#define GHOST_DECL(T, n) T n;
GHOSTS(GHOST_DECL)
#ifndef VCAP
#define VCAP 1024
#endif
#ifndef WCAP
#define WCAP 16
#endif
#define UC(p) ((const unsigned char *)(p))

/* a bstr argument that is only read: inline or wrapped, capacity g_cap (ghost, symbolic) */
#define RO_BSTR(b) (g_cap <= VCAP && \
    (g_wrapped ? (__CPROVER_is_fresh((b), sizeof(bstr)) && __CPROVER_is_fresh((b)->realptr, g_cap)) \
               : (__CPROVER_is_fresh((b), sizeof(bstr) + g_cap) && (b)->realptr == NULL)) && \
    (b)->size == g_cap && (b)->len <= (b)->size)


#define NM1(EQ, a, la, b, lb, i, j) ((j) < (lb) && !EQ((a)[(i) + (j)], (b)[(j)]))
#define NOMATCH(EQ, a, la, b, lb, i) ((i) + (lb) > (la) || \
    NM1(EQ,a,la,b,lb,i,0) || NM1(EQ,a,la,b,lb,i,1) || NM1(EQ,a,la,b,lb,i,2) || NM1(EQ,a,la,b,lb,i,3) || \
    NM1(EQ,a,la,b,lb,i,4) || NM1(EQ,a,la,b,lb,i,5) || NM1(EQ,a,la,b,lb,i,6) || NM1(EQ,a,la,b,lb,i,7) || \
    NM1(EQ,a,la,b,lb,i,8) || NM1(EQ,a,la,b,lb,i,9) || NM1(EQ,a,la,b,lb,i,10) || NM1(EQ,a,la,b,lb,i,11) || \
    NM1(EQ,a,la,b,lb,i,12) || NM1(EQ,a,la,b,lb,i,13) || NM1(EQ,a,la,b,lb,i,14) || NM1(EQ,a,la,b,lb,i,15) || \
    NM1(EQ,a,la,b,lb,i,16) || NM1(EQ,a,la,b,lb,i,17) || NM1(EQ,a,la,b,lb,i,18) || NM1(EQ,a,la,b,lb,i,19))
#define EQ_EXACT(x, y) ((x) == (y))
#define EQ_NOCASE(x, y) (UPP(x) == UPP(y))
#ifndef NEEDLE_MAX
#define NEEDLE_MAX 20
#endif



/* list/table views (used by loop invariants) */
#define LIST_POS(l, i) (((l)->first + (i) >= (l)->max_size) ? (l)->first + (i) - (l)->max_size : (l)->first + (i))
#define VIEW(l, i) ((l)->elements[LIST_POS(l, i)])
#define TL(t) (&(t)->list)
#define CMP_LOG_ASSIGNS g_cmp_n, g_last_key, g_last_res, g_wit_key, g_wit_res
#define NPAIRS(t) (TL(t)->current_size / 2)
#endif
