/* Specification vocabulary that loop invariants refer to: must precede the real sources.
 * Macros and ghost globals only; nothing here generates code in the functions under proof. */
#ifndef GHOST_H
#define GHOST_H
#include "vtables.h"
/* Ghost globals.  Objects with static lifetime are zero-initialised in CBMC, so every ghost is
 * listed here once and havocked by the generated entry point before the harness body runs
 * (v_havoc_ghosts, vcommon.h).  A ghost that is not in this list would silently be 0. */
#define GHOSTS_BASE(X) \
    X(size_t, gk) X(size_t, gj) X(size_t, gi) X(size_t, g_canary) \
    X(size_t, g_cap) X(_Bool, g_wrapped) \
    X(size_t, g_trim_oldlen) \
    X(size_t, g_cmp_n) X(const void *, g_last_key) X(int, g_last_res) X(const void *, g_wit_key) X(int, g_wit_res)
/* per-module fragments: contracts/ghost_<module>.h may define GHOSTS_<MODULE>(X) plus spec macros */
#if __has_include("ghost_c01.h")
#include "ghost_c01.h"
#endif
#ifndef GHOSTS_C01
#define GHOSTS_C01(X)
#endif
#if __has_include("ghost_c02.h")
#include "ghost_c02.h"
#endif
#ifndef GHOSTS_C02
#define GHOSTS_C02(X)
#endif
#if __has_include("ghost_c03.h")
#include "ghost_c03.h"
#endif
#ifndef GHOSTS_C03
#define GHOSTS_C03(X)
#endif
#if __has_include("ghost_c04.h")
#include "ghost_c04.h"
#endif
#ifndef GHOSTS_C04
#define GHOSTS_C04(X)
#endif
#if __has_include("ghost_c05.h")
#include "ghost_c05.h"
#endif
#ifndef GHOSTS_C05
#define GHOSTS_C05(X)
#endif
#if __has_include("ghost_c06.h")
#include "ghost_c06.h"
#endif
#ifndef GHOSTS_C06
#define GHOSTS_C06(X)
#endif
#if __has_include("ghost_c07.h")
#include "ghost_c07.h"
#endif
#ifndef GHOSTS_C07
#define GHOSTS_C07(X)
#endif
#if __has_include("ghost_c08.h")
#include "ghost_c08.h"
#endif
#ifndef GHOSTS_C08
#define GHOSTS_C08(X)
#endif
#if __has_include("ghost_c09.h")
#include "ghost_c09.h"
#endif
#ifndef GHOSTS_C09
#define GHOSTS_C09(X)
#endif
#if __has_include("ghost_c10.h")
#include "ghost_c10.h"
#endif
#ifndef GHOSTS_C10
#define GHOSTS_C10(X)
#endif
#if __has_include("ghost_c11.h")
#include "ghost_c11.h"
#endif
#ifndef GHOSTS_C11
#define GHOSTS_C11(X)
#endif
#if __has_include("ghost_c12.h")
#include "ghost_c12.h"
#endif
#ifndef GHOSTS_C12
#define GHOSTS_C12(X)
#endif
#if __has_include("ghost_c13.h")
#include "ghost_c13.h"
#endif
#ifndef GHOSTS_C13
#define GHOSTS_C13(X)
#endif
#if __has_include("ghost_c14.h")
#include "ghost_c14.h"
#endif
#ifndef GHOSTS_C14
#define GHOSTS_C14(X)
#endif
#if __has_include("ghost_c15.h")
#include "ghost_c15.h"
#endif
#ifndef GHOSTS_C15
#define GHOSTS_C15(X)
#endif
#if __has_include("ghost_c16.h")
#include "ghost_c16.h"
#endif
#ifndef GHOSTS_C16
#define GHOSTS_C16(X)
#endif
#if __has_include("ghost_c17.h")
#include "ghost_c17.h"
#endif
#ifndef GHOSTS_C17
#define GHOSTS_C17(X)
#endif
#if __has_include("ghost_c18.h")
#include "ghost_c18.h"
#endif
#ifndef GHOSTS_C18
#define GHOSTS_C18(X)
#endif
#if __has_include("ghost_c19.h")
#include "ghost_c19.h"
#endif
#ifndef GHOSTS_C19
#define GHOSTS_C19(X)
#endif
#if __has_include("ghost_sm.h")
#include "ghost_sm.h"
#endif
#ifndef GHOSTS_SM
#define GHOSTS_SM(X)
#endif
#define GHOSTS(X) GHOSTS_BASE(X) GHOSTS_C01(X) GHOSTS_C02(X) GHOSTS_C03(X) GHOSTS_C04(X) GHOSTS_C05(X) GHOSTS_C06(X) GHOSTS_C07(X) GHOSTS_C08(X) GHOSTS_C09(X) GHOSTS_C10(X) GHOSTS_C11(X) GHOSTS_C12(X) GHOSTS_C13(X) GHOSTS_C14(X) GHOSTS_C15(X) GHOSTS_C16(X) GHOSTS_C17(X) GHOSTS_C18(X) GHOSTS_C19(X) GHOSTS_SM(X)
#define GHOST_DECL(T, n) T n;
GHOSTS(GHOST_DECL)
#ifndef LCAP
#define LCAP 16
#endif
#ifndef VCAP
#define VCAP 1024
#endif
#ifndef WCAP
#define WCAP 16
#endif
#define UC(p) ((const unsigned char *)(p))

/* a bstr argument that is only read: inline or wrapped, capacity g_cap (ghost, symbolic) */
#define RO_BSTR(b) (g_cap <= VCAP && \
    (g_wrapped ? (__CPROVER_is_fresh((b), sizeof(bstr)) && __CPROVER_is_fresh((b)->realptr, g_cap)) \
               : (__CPROVER_is_fresh((b), sizeof(bstr) + g_cap) && (b)->realptr == NULL)) && \
    (b)->size == g_cap && (b)->len <= (b)->size)


#define NM1(EQ, a, la, b, lb, i, j) ((j) < (lb) && !EQ((a)[(i) + (j)], (b)[(j)]))
#define NOMATCH(EQ, a, la, b, lb, i) ((i) + (lb) > (la) || \
    NM1(EQ,a,la,b,lb,i,0) || NM1(EQ,a,la,b,lb,i,1) || NM1(EQ,a,la,b,lb,i,2) || NM1(EQ,a,la,b,lb,i,3) || \
    NM1(EQ,a,la,b,lb,i,4) || NM1(EQ,a,la,b,lb,i,5) || NM1(EQ,a,la,b,lb,i,6) || NM1(EQ,a,la,b,lb,i,7) || \
    NM1(EQ,a,la,b,lb,i,8) || NM1(EQ,a,la,b,lb,i,9) || NM1(EQ,a,la,b,lb,i,10) || NM1(EQ,a,la,b,lb,i,11) || \
    NM1(EQ,a,la,b,lb,i,12) || NM1(EQ,a,la,b,lb,i,13) || NM1(EQ,a,la,b,lb,i,14) || NM1(EQ,a,la,b,lb,i,15) || \
    NM1(EQ,a,la,b,lb,i,16) || NM1(EQ,a,la,b,lb,i,17) || NM1(EQ,a,la,b,lb,i,18) || NM1(EQ,a,la,b,lb,i,19))
#define EQ_EXACT(x, y) ((x) == (y))
#define EQ_NOCASE(x, y) (UPP(x) == UPP(y))
#ifndef NEEDLE_MAX
#define NEEDLE_MAX 20
#endif



/* list/table views (used by loop invariants) */
#define LIST_POS(l, i) (((l)->first + (i) >= (l)->max_size) ? (l)->first + (i) - (l)->max_size : (l)->first + (i))
#define VIEW(l, i) ((l)->elements[LIST_POS(l, i)])
#define WF_LIST_FIELDS(l) ((l)->max_size >= 1 && (l)->max_size <= LCAP && (l)->current_size <= (l)->max_size && \
    (l)->first < (l)->max_size && (l)->last < (l)->max_size && (l)->last == LIST_POS(l, (l)->current_size == (l)->max_size ? 0 : (l)->current_size))
#define TL(t) (&(t)->list)
#define CMP_LOG_ASSIGNS g_cmp_n, g_last_key, g_last_res, g_wit_key, g_wit_res
#define NPAIRS(t) (TL(t)->current_size / 2)
#endif
