/* Contracts for bstr.c (C17, safety part = C01).
 *
 * Post-conditions are taken from the abstract meaning named in the property statement
 * (compare = lexicographic order on unsigned bytes; search = first occurrence; prefix test;
 * append; trim; lower-case), not from the code.  Universally quantified facts are stated for
 * the arbitrary ghost witnesses gk/gj (DESIGN 2.6).  Existential facts ("the sign is that of the
 * FIRST difference") cannot be stated without a quantifier; they are carried by the bounded
 * reference-equality units in units/c17_ref.py and reported as bounded there.
 */
#ifndef C17_BSTR_H
#define C17_BSTR_H



/* ---- compare family ------------------------------------------------------------------- */
int contract_bstr_util_cmp_mem(const void *_data1, size_t len1, const void *_data2, size_t len2)
__CPROVER_requires(len1 <= VCAP && len2 <= VCAP)
__CPROVER_requires(__CPROVER_is_fresh(_data1, len1) && __CPROVER_is_fresh(_data2, len2))
__CPROVER_assigns()
__CPROVER_ensures(__CPROVER_return_value == -1 || __CPROVER_return_value == 0 || __CPROVER_return_value == 1)
__CPROVER_ensures(__CPROVER_return_value == 0 ==> (len1 == len2 && (gk < len1 ==> UC(_data1)[gk] == UC(_data2)[gk])))
__CPROVER_ensures((gk < len1 && gk < len2 && UC(_data1)[gk] != UC(_data2)[gk]) ==> __CPROVER_return_value != 0)
__CPROVER_ensures((len1 != len2) ==> __CPROVER_return_value != 0)
/* no difference anywhere in the common prefix => the length rule decides the sign; stated in the
 * contrapositive for the witness: a result that contradicts the length rule implies that gk is not
 * a counterexample-free position, i.e. SOME difference exists; the pointwise form is: */
__CPROVER_ensures((len1 == 0 && len2 > 0) ==> __CPROVER_return_value == -1)
__CPROVER_ensures((len2 == 0 && len1 > 0) ==> __CPROVER_return_value == 1)
__CPROVER_ensures((len1 > 0 && len2 > 0 && UC(_data1)[0] < UC(_data2)[0]) ==> __CPROVER_return_value == -1)
__CPROVER_ensures((len1 > 0 && len2 > 0 && UC(_data1)[0] > UC(_data2)[0]) ==> __CPROVER_return_value == 1)
;


int contract_bstr_util_cmp_mem_nocase(const void *_data1, size_t len1, const void *_data2, size_t len2)
__CPROVER_requires(len1 <= VCAP && len2 <= VCAP)
__CPROVER_requires(__CPROVER_is_fresh(_data1, len1) && __CPROVER_is_fresh(_data2, len2))
__CPROVER_assigns()
__CPROVER_ensures(__CPROVER_return_value == -1 || __CPROVER_return_value == 0 || __CPROVER_return_value == 1)
__CPROVER_ensures(__CPROVER_return_value == 0 ==> (len1 == len2 && (gk < len1 ==> LOW(UC(_data1)[gk]) == LOW(UC(_data2)[gk]))))
__CPROVER_ensures((gk < len1 && gk < len2 && LOW(UC(_data1)[gk]) != LOW(UC(_data2)[gk])) ==> __CPROVER_return_value != 0)
__CPROVER_ensures((len1 != len2) ==> __CPROVER_return_value != 0)
__CPROVER_ensures((len1 == 0 && len2 > 0) ==> __CPROVER_return_value == -1)
__CPROVER_ensures((len2 == 0 && len1 > 0) ==> __CPROVER_return_value == 1)
__CPROVER_ensures((len1 > 0 && len2 > 0 && LOW(UC(_data1)[0]) < LOW(UC(_data2)[0])) ==> __CPROVER_return_value == -1)
__CPROVER_ensures((len1 > 0 && len2 > 0 && LOW(UC(_data1)[0]) > LOW(UC(_data2)[0])) ==> __CPROVER_return_value == 1)
;

/* NUL-skipping compare: safety, result range, and the NUL-free case coincides with nocase */
int contract_bstr_util_cmp_mem_nocasenorzero(const void *_data1, size_t len1, const void *_data2, size_t len2)
__CPROVER_requires(len1 <= VCAP && len2 <= VCAP)
__CPROVER_requires(__CPROVER_is_fresh(_data1, len1) && __CPROVER_is_fresh(_data2, len2))
__CPROVER_assigns()
__CPROVER_ensures(__CPROVER_return_value == -1 || __CPROVER_return_value == 0 || __CPROVER_return_value == 1)
/* a non-NUL first byte that differs from the first needle byte decides */
__CPROVER_ensures((len1 > 0 && len2 > 0 && UC(_data1)[0] != 0 && LOW(UC(_data1)[0]) < LOW(UC(_data2)[0])) ==> __CPROVER_return_value == -1)
__CPROVER_ensures((len1 > 0 && len2 > 0 && UC(_data1)[0] != 0 && LOW(UC(_data1)[0]) > LOW(UC(_data2)[0])) ==> __CPROVER_return_value == 1)
__CPROVER_ensures((len1 == 0 && len2 > 0) ==> __CPROVER_return_value == -1)
/* equal => the haystack is not shorter than the needle (NULs only add length) */
__CPROVER_ensures(__CPROVER_return_value == 0 ==> len1 >= len2)
;

/* ---- prefix tests ------------------------------------------------------------------------ */
int contract_bstr_begins_with_mem(const bstr *haystack, const void *_data, size_t len)
__CPROVER_requires(RO_BSTR(haystack) && len <= VCAP && __CPROVER_is_fresh(_data, len))
__CPROVER_assigns()
__CPROVER_ensures(__CPROVER_return_value == 0 || __CPROVER_return_value == 1)
__CPROVER_ensures(__CPROVER_return_value == 1 ==> (len <= bstr_len(haystack) && (gk < len ==> bstr_ptr(haystack)[gk] == UC(_data)[gk])))
__CPROVER_ensures((len > bstr_len(haystack)) ==> __CPROVER_return_value == 0)
__CPROVER_ensures((gk < len && gk < bstr_len(haystack) && bstr_ptr(haystack)[gk] != UC(_data)[gk]) ==> __CPROVER_return_value == 0)
__CPROVER_ensures(len == 0 ==> __CPROVER_return_value == 1)
;

int contract_bstr_begins_with_mem_nocase(const bstr *haystack, const void *_data, size_t len)
__CPROVER_requires(RO_BSTR(haystack) && len <= VCAP && __CPROVER_is_fresh(_data, len))
__CPROVER_assigns()
__CPROVER_ensures(__CPROVER_return_value == 0 || __CPROVER_return_value == 1)
__CPROVER_ensures(__CPROVER_return_value == 1 ==> (len <= bstr_len(haystack) && (gk < len ==> LOW(bstr_ptr(haystack)[gk]) == LOW(UC(_data)[gk]))))
__CPROVER_ensures((len > bstr_len(haystack)) ==> __CPROVER_return_value == 0)
__CPROVER_ensures((gk < len && gk < bstr_len(haystack) && LOW(bstr_ptr(haystack)[gk]) != LOW(UC(_data)[gk])) ==> __CPROVER_return_value == 0)
__CPROVER_ensures(len == 0 ==> __CPROVER_return_value == 1)
;

/* ---- character search --------------------------------------------------------------------- */
int contract_bstr_chr(const bstr *b, int c)
__CPROVER_requires(RO_BSTR(b) && VCAP <= INT_MAX)
__CPROVER_assigns()
__CPROVER_ensures(__CPROVER_return_value >= -1 && __CPROVER_return_value < (long) bstr_len(b))
__CPROVER_ensures(__CPROVER_return_value >= 0 ==> bstr_ptr(b)[__CPROVER_return_value] == c)
/* first occurrence: nothing before the result (or anywhere, when -1) equals c */
__CPROVER_ensures((gk < bstr_len(b) && (__CPROVER_return_value == -1 || gk < (size_t) __CPROVER_return_value)) ==> bstr_ptr(b)[gk] != c)
;

int contract_bstr_rchr(const bstr *b, int c)
__CPROVER_requires(RO_BSTR(b) && VCAP <= INT_MAX)
__CPROVER_assigns()
__CPROVER_ensures(__CPROVER_return_value >= -1 && __CPROVER_return_value < (long) bstr_len(b))
__CPROVER_ensures(__CPROVER_return_value >= 0 ==> bstr_ptr(b)[__CPROVER_return_value] == c)
/* last occurrence: nothing after the result equals c */
__CPROVER_ensures((gk < bstr_len(b) && (long) gk > (long) __CPROVER_return_value) ==> bstr_ptr(b)[gk] != c)
;

int contract_bstr_char_at(const bstr *b, size_t pos)
__CPROVER_requires(RO_BSTR(b))
__CPROVER_assigns()
__CPROVER_ensures(pos < bstr_len(b) ? __CPROVER_return_value == bstr_ptr(b)[pos] : __CPROVER_return_value == -1)
;

int contract_bstr_char_at_end(const bstr *b, size_t pos)
__CPROVER_requires(RO_BSTR(b))
__CPROVER_assigns()
__CPROVER_ensures(pos < bstr_len(b) ? __CPROVER_return_value == bstr_ptr(b)[bstr_len(b) - 1 - pos] : __CPROVER_return_value == -1)
;

/* ---- substring search: first occurrence, needle <= 20 bytes ------------------------------- */

int contract_bstr_util_mem_index_of_mem(const void *_data1, size_t len1, const void *_data2, size_t len2)
__CPROVER_requires(len1 <= VCAP && VCAP <= INT_MAX && len2 >= 1 && len2 <= NEEDLE_MAX)
__CPROVER_requires(__CPROVER_is_fresh(_data1, len1) && __CPROVER_is_fresh(_data2, len2))
__CPROVER_assigns()
__CPROVER_ensures(__CPROVER_return_value >= -1)
__CPROVER_ensures(__CPROVER_return_value >= 0 ==> ((size_t) __CPROVER_return_value + len2 <= len1 &&
    (gk < len2 ==> UC(_data1)[(size_t) __CPROVER_return_value + gk] == UC(_data2)[gk])))
__CPROVER_ensures((gj < len1 && (__CPROVER_return_value == -1 || gj < (size_t) __CPROVER_return_value)) ==>
    NOMATCH(EQ_EXACT, UC(_data1), len1, UC(_data2), len2, gj))
;

int contract_bstr_util_mem_index_of_mem_nocase(const void *_data1, size_t len1, const void *_data2, size_t len2)
__CPROVER_requires(len1 <= VCAP && VCAP <= INT_MAX && len2 >= 1 && len2 <= NEEDLE_MAX)
__CPROVER_requires(__CPROVER_is_fresh(_data1, len1) && __CPROVER_is_fresh(_data2, len2))
__CPROVER_assigns()
__CPROVER_ensures(__CPROVER_return_value >= -1)
__CPROVER_ensures(__CPROVER_return_value >= 0 ==> ((size_t) __CPROVER_return_value + len2 <= len1 &&
    (gk < len2 ==> UPP(UC(_data1)[(size_t) __CPROVER_return_value + gk]) == UPP(UC(_data2)[gk]))))
__CPROVER_ensures((gj < len1 && (__CPROVER_return_value == -1 || gj < (size_t) __CPROVER_return_value)) ==>
    NOMATCH(EQ_NOCASE, UC(_data1), len1, UC(_data2), len2, gj))
;

/* NUL-skipping search: safety; a hit starts at a non-NUL byte that matches the needle's first byte,
 * and (NUL-free prefix case) nothing before it does */
int contract_bstr_util_mem_index_of_mem_nocasenorzero(const void *_data1, size_t len1, const void *_data2, size_t len2)
__CPROVER_requires(len1 <= VCAP && VCAP <= INT_MAX && len2 >= 1 && len2 <= NEEDLE_MAX)
__CPROVER_requires(__CPROVER_is_fresh(_data1, len1) && __CPROVER_is_fresh(_data2, len2))
__CPROVER_assigns()
__CPROVER_ensures(__CPROVER_return_value >= -1 && __CPROVER_return_value < (long) len1)
__CPROVER_ensures(__CPROVER_return_value >= 0 ==> (UC(_data1)[__CPROVER_return_value] != 0 &&
    UPP(UC(_data1)[__CPROVER_return_value]) == UPP(UC(_data2)[0])))
;

/* ---- trim ----------------------------------------------------------------------------------- */
void contract_bstr_util_mem_trim(unsigned char **data, size_t *len)
__CPROVER_requires(__CPROVER_is_fresh(data, sizeof(*data)) && __CPROVER_is_fresh(len, sizeof(*len)))
__CPROVER_requires(*len <= VCAP && __CPROVER_is_fresh(*data, *len))
__CPROVER_requires(g_trim_oldlen == *len)
__CPROVER_assigns(*data, *len)
/* result is a sub-range of the input */
__CPROVER_ensures(__CPROVER_same_object(*data, __CPROVER_old(*data)) && *data >= __CPROVER_old(*data) && *len <= __CPROVER_old(*len) &&
                  (size_t)(*data - __CPROVER_old(*data)) + *len <= __CPROVER_old(*len))
/* its ends are not whitespace, and everything cut off is whitespace */
__CPROVER_ensures(*len > 0 ==> (!ISSP((*data)[0]) && !ISSP((*data)[*len - 1])))
__CPROVER_ensures((gk < __CPROVER_old(*len) && (gk < (size_t)(*data - __CPROVER_old(*data)) || gk >= (size_t)(*data - __CPROVER_old(*data)) + *len)) ==> ISSP(__CPROVER_old(*data)[gk]))
;

/* ---- writers (fixed capacity WCAP, symbolic content and length) ------------------------------ */
bstr *contract_bstr_to_lowercase(bstr *b)
__CPROVER_requires(b == NULL || (__CPROVER_is_fresh(b, sizeof(bstr) + WCAP) && b->realptr == NULL && b->size == WCAP && b->len <= WCAP))
__CPROVER_assigns(b != NULL: __CPROVER_object_upto((unsigned char *) b + sizeof(bstr), WCAP))
__CPROVER_ensures(__CPROVER_return_value == b)
__CPROVER_ensures(b != NULL ==> (b->len == __CPROVER_old(b->len) && b->size == WCAP && b->realptr == NULL))
;

/* ---- numbers ----------------------------------------------------------------------------------- */
int64_t contract_bstr_util_mem_to_pint(const void *_data, size_t len, int base, size_t *lastlen)
__CPROVER_requires(len <= VCAP && __CPROVER_is_fresh(_data, len) && __CPROVER_is_fresh(lastlen, sizeof(*lastlen)))
__CPROVER_requires(base == 10 || base == 16) /* the only bases any call site passes; one unit per base, literal in the harness */
__CPROVER_assigns(*lastlen)
__CPROVER_ensures(__CPROVER_return_value >= -2)
/* -1 iff there is no leading digit (the empty string yields 0 with *lastlen==1: callers test len first) */
__CPROVER_ensures(len > 0 ==> ((__CPROVER_return_value == -1) == !ISDIG(UC(_data)[0], base)))
/* on success *lastlen delimits the digit run: every byte before it is a digit, the byte at it is not */
__CPROVER_ensures(__CPROVER_return_value >= 0 && len > 0 ==> ((*lastlen <= len + 1) && (gk < *lastlen && gk < len ==> ISDIG(UC(_data)[gk], base)) &&
    (*lastlen < len ==> !ISDIG(UC(_data)[*lastlen], base)) && (*lastlen >= len ==> *lastlen == len + 1)))
/* single digit: exact value */
__CPROVER_ensures((len >= 1 && ISDIG(UC(_data)[0], base) && (len == 1 || !ISDIG(UC(_data)[1], base))) ==> __CPROVER_return_value == DIGVAL(UC(_data)[0]))
;

#endif
