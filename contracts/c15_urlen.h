/* Contracts for htp_urlencoded.c (C15; safety part = C01, allocation failure = C18).
 *
 * Post-conditions are taken from the property statement: "split on '&', split each piece at its
 * first '=', drop only a final empty piece, then decode name and value - in order, including
 * empty names and values; identical for every chunking".
 *
 * (1) htp_urlenp_parse_partial is the scanner.  Its only observable effect besides _state is the
 *     sequence of calls (start_i, end_i, c_i) it makes to htp_urlenp_add_field_piece; that callee is
 *     REPLACED by a logging stub and the split rule is stated over the call log (tiling law).
 * (2) htp_urlenp_add_field_piece is the piece handler; builder / table / allocation / decoder callees are
 *     REPLACED by counting stubs and the emission rule is stated as a transition table.
 */
#ifndef C15_URLEN_H
#define C15_URLEN_H

/* ------------------------------------------------------------------------------------------- */
/* (1) scanner                                                                                   */
/* ------------------------------------------------------------------------------------------- */

/* Logging stub of the piece handler (replace mode only).  Frame: the real handler writes
 * urlenp->_name (and builder / table contents) but neither _state, argument_separator nor the
 * input; unit htp_urlenp_add_field_piece proves that frame on the real code. */
void contract_fp_log(htp_urlenp_t *urlenp, const unsigned char *data, size_t startpos, size_t endpos, int last_char)
__CPROVER_requires(g_fp_n <= VCAP)
__CPROVER_assigns(FP_LOG_ASSIGNS, urlenp->_name)
__CPROVER_ensures(g_fp_n == __CPROVER_old(g_fp_n) + 1)
__CPROVER_ensures(g_fp_last_start == startpos && g_fp_last_end == endpos && g_fp_last_c == last_char && g_fp_last_state == urlenp->_state)
__CPROVER_ensures(__CPROVER_old(g_fp_n) == gk
    ? (g_fp_wit_start == startpos && g_fp_wit_end == endpos && g_fp_wit_c == last_char && g_fp_wit_state == urlenp->_state &&
       g_fp_wit_prev_end == __CPROVER_old(g_fp_last_end) && g_fp_wit_prev_c == __CPROVER_old(g_fp_last_c))
    : (g_fp_wit_start == __CPROVER_old(g_fp_wit_start) && g_fp_wit_end == __CPROVER_old(g_fp_wit_end) && g_fp_wit_c == __CPROVER_old(g_fp_wit_c) &&
       g_fp_wit_state == __CPROVER_old(g_fp_wit_state) && g_fp_wit_prev_end == __CPROVER_old(g_fp_wit_prev_end) && g_fp_wit_prev_c == __CPROVER_old(g_fp_wit_prev_c)))
;

#define PP_L (_data == NULL ? (size_t) 0 : len)          /* effective input length */
#define PP_S0 (__CPROVER_old(urlenp->_state))
#define PP_SEP (urlenp->argument_separator)
#define PP_VALID0 (PP_S0 == C15_KEY || PP_S0 == C15_VALUE)

htp_status_t contract_htp_urlenp_parse_partial(htp_urlenp_t *urlenp, const void *_data, size_t len)
__CPROVER_requires(__CPROVER_is_fresh(urlenp, sizeof(*urlenp)))
__CPROVER_requires(len <= VCAP && (_data == NULL || __CPROVER_is_fresh(_data, len)))
__CPROVER_requires(g_fp_n == 0 && g_fp_state0 == urlenp->_state)
/* g_fp_bj names the byte at the arbitrary witness position gj (ghost only: restricts no real state) */
__CPROVER_requires((_data != NULL && gj < len) ==> g_fp_bj == UC(_data)[gj])
__CPROVER_assigns(urlenp->_state, urlenp->_name, FP_LOG_ASSIGNS)
/* an invalid parser state is refused without touching anything */
__CPROVER_ensures(!PP_VALID0 ==> (__CPROVER_return_value == HTP_ERROR && g_fp_n == 0 && urlenp->_state == PP_S0))
__CPROVER_ensures(PP_VALID0 ==> (__CPROVER_return_value == HTP_OK && g_fp_n >= 1 && g_fp_n <= PP_L + 1))
/* the last piece runs to the end of the chunk and is flagged "unterminated" (-1); the parser is
 * left in the state that piece was scanned in */
__CPROVER_ensures(PP_VALID0 ==> (g_fp_last_end == PP_L && g_fp_last_c == -1 && urlenp->_state == g_fp_last_state))
/* tiling law for the gk-th call (gk arbitrary): starts right after the previous delimiter (0 for the
 * first), in the state selected by that delimiter ('&' -> KEY, '=' -> VALUE); ends at the FIRST byte
 * (witness gj: none earlier) that is '&', or '=' while in KEY state, and reports that byte; only the
 * last call is unterminated */
__CPROVER_ensures((PP_VALID0 && gk < g_fp_n) ==> FP_WIT_OK(UC(_data), PP_L, PP_S0, PP_SEP))
__CPROVER_ensures((PP_VALID0 && gk < g_fp_n && gk != g_fp_n - 1) ==> g_fp_wit_c != -1)
__CPROVER_ensures((PP_VALID0 && gk < g_fp_n && gk == g_fp_n - 1) ==> (g_fp_wit_c == -1 && g_fp_wit_end == PP_L && g_fp_wit_state == urlenp->_state))
/* configuration is not modified (also by the frame) */
__CPROVER_ensures(urlenp->argument_separator == __CPROVER_old(urlenp->argument_separator) && urlenp->_complete == __CPROVER_old(urlenp->_complete))
;

/* ------------------------------------------------------------------------------------------- */
/* (2) piece handler                                                                             */
/* ------------------------------------------------------------------------------------------- */
#define FPC_ASSIGNS g_bb_n, g_bb_app, g_bb_app_ptr, g_bb_app_len, g_bb_clr, g_bb_tostr, g_dupm_n, g_dupm_ptr, g_dupm_len, g_field, \
    g_dupc_n, g_dupc_a, g_dupc_b, g_free_n, g_freed, g_dec_n, g_dec_a, g_dec_b, g_pairs, g_pair_name, g_pair_value, g_pair_rc

/* --- stubs of the callees (replace mode).  Each one may fail where the real one allocates. ---
 * NB: in replace mode is_fresh(return_value) ASSIGNS the return value, so it must be the first ensures clause. */
size_t contract_c15_bb_size(const bstr_builder_t *bb)
__CPROVER_requires(1) __CPROVER_assigns() __CPROVER_ensures(__CPROVER_return_value == g_bb_n);

/* the appended range must be a readable, non-empty part of the chunk (asserted at the call site) */
htp_status_t contract_c15_bb_append_mem(bstr_builder_t *bb, const void *data, size_t len)
__CPROVER_requires(len > 0 && __CPROVER_r_ok(data, len) && g_bb_n <= VCAP && g_bb_app == 0)
__CPROVER_assigns(g_bb_n, g_bb_app, g_bb_app_ptr, g_bb_app_len)
__CPROVER_ensures(g_bb_app == 1 && g_bb_app_ptr == data && g_bb_app_len == len)
__CPROVER_ensures((__CPROVER_return_value == HTP_OK && g_bb_n == __CPROVER_old(g_bb_n) + 1) || (__CPROVER_return_value == HTP_ERROR && g_bb_n == __CPROVER_old(g_bb_n)))
;
bstr *contract_c15_bb_to_str(const bstr_builder_t *bb)
__CPROVER_requires(g_bb_tostr == 0 && g_bb_n > 0)
__CPROVER_assigns(g_bb_tostr, g_field)
__CPROVER_ensures(__CPROVER_return_value == NULL || __CPROVER_is_fresh(__CPROVER_return_value, sizeof(bstr)))
__CPROVER_ensures(g_bb_tostr == 1 && g_field == __CPROVER_return_value)
;
void contract_c15_bb_clear(bstr_builder_t *bb)
__CPROVER_requires(g_bb_clr == 0)
__CPROVER_assigns(g_bb_n, g_bb_clr)
__CPROVER_ensures(g_bb_n == 0 && g_bb_clr == 1)
;
bstr *contract_c15_dup_mem(const void *data, size_t len)
__CPROVER_requires(len > 0 && __CPROVER_r_ok(data, len) && g_dupm_n == 0)
__CPROVER_assigns(g_dupm_n, g_dupm_ptr, g_dupm_len, g_field)
__CPROVER_ensures(__CPROVER_return_value == NULL || __CPROVER_is_fresh(__CPROVER_return_value, sizeof(bstr)))
__CPROVER_ensures(g_dupm_n == 1 && g_dupm_ptr == data && g_dupm_len == len && g_field == __CPROVER_return_value)
;
/* only the empty string is ever duplicated */
bstr *contract_c15_dup_c(const char *cstr)
__CPROVER_requires(cstr != NULL && cstr[0] == 0 && g_dupc_n <= 1)
__CPROVER_assigns(g_dupc_n, g_dupc_a, g_dupc_b)
__CPROVER_ensures(__CPROVER_return_value == NULL || __CPROVER_is_fresh(__CPROVER_return_value, sizeof(bstr)))
__CPROVER_ensures(g_dupc_n == __CPROVER_old(g_dupc_n) + 1)
__CPROVER_ensures(__CPROVER_old(g_dupc_n) == 0 ? (g_dupc_a == __CPROVER_return_value && g_dupc_b == __CPROVER_old(g_dupc_b))
                                               : (g_dupc_b == __CPROVER_return_value && g_dupc_a == __CPROVER_old(g_dupc_a)))
;
/* bstr_free(NULL) is a no-op; a second free in one call is refused (g_free_n == 0 is asserted) */
void contract_c15_bstr_free(bstr *b)
__CPROVER_requires(b == NULL || g_free_n == 0)
__CPROVER_assigns(g_free_n, g_freed)
__CPROVER_ensures(b == NULL ? (g_free_n == __CPROVER_old(g_free_n) && g_freed == __CPROVER_old(g_freed)) : (g_free_n == 1 && g_freed == b))
;
/* decoder (property C12): abstracted to "called on this string"; contents of bstrs are not modelled here */
htp_status_t contract_c15_decode(htp_tx_t *tx, bstr *input)
__CPROVER_requires(input != NULL && g_dec_n <= 1)
__CPROVER_assigns(g_dec_n, g_dec_a, g_dec_b)
__CPROVER_ensures(g_dec_n == __CPROVER_old(g_dec_n) + 1)
__CPROVER_ensures(__CPROVER_old(g_dec_n) == 0 ? (g_dec_a == input && g_dec_b == __CPROVER_old(g_dec_b)) : (g_dec_b == input && g_dec_a == __CPROVER_old(g_dec_a)))
;
/* table insert: may fail (the real one reallocates); key and element must be real strings */
htp_status_t contract_c15_table_addn(htp_table_t *table, const bstr *key, const void *element)
__CPROVER_requires(key != NULL && element != NULL && g_pairs == 0)
__CPROVER_assigns(g_pairs, g_pair_name, g_pair_value, g_pair_rc)
__CPROVER_ensures(g_pairs == 1 && g_pair_name == key && g_pair_value == element && g_pair_rc == __CPROVER_return_value)
__CPROVER_ensures(__CPROVER_return_value == HTP_OK || __CPROVER_return_value == HTP_ERROR)
;

/* --- vocabulary of the transition table (entry values) --- */
#define FP_S    (__CPROVER_old(urlenp->_state))
#define FP_K    (__CPROVER_old(urlenp->_complete) != 0)                  /* finalize() was called */
#define FP_N0   ((const void *) __CPROVER_old(urlenp->_name))            /* key remembered from an earlier piece */
#define FP_B    (__CPROVER_old(g_bb_n))                                  /* pieces buffered so far */
#define FP_SEP  (urlenp->argument_separator)
#define FP_E    (data == NULL || endpos == startpos)                     /* this piece is empty */
#define FP_FIN  (last_char != -1 || FP_K)                                /* the field is finished */
#define FP_FIELD_OOM (FP_FIN && (FP_B > 0 || !FP_E) && g_field == NULL)  /* assembling the field failed */
#define FP_NOW  ((const void *) urlenp->_name)
/* EMISSION RULE (property): a pair is reported exactly for a finished value, for a key finished by the
 * separator (even empty), and for a final NON-EMPTY key; a final empty piece is dropped */
#define FP_EMIT (FP_FIN && (FP_S == C15_VALUE || last_char == FP_SEP || (FP_K && g_field != NULL)))
#define FP_ALLOC_OK (!(g_dupc_n >= 1 && g_dupc_a == NULL) && !(g_dupc_n >= 2 && g_dupc_b == NULL))
#define FP_NEED ((size_t) (FP_S == C15_KEY ? (g_field == NULL ? 2 : 1) : ((FP_N0 == NULL ? 1 : 0) + (g_field == NULL ? 1 : 0))))
#define FP_NAME  (FP_S == C15_KEY ? (g_field != NULL ? g_field : g_dupc_a) : (FP_N0 != NULL ? FP_N0 : g_dupc_a))
#define FP_VALUE (FP_S == C15_KEY ? (g_field != NULL ? g_dupc_a : g_dupc_b) : (g_field != NULL ? g_field : (FP_N0 != NULL ? g_dupc_a : g_dupc_b)))
/* ownership: every string is, at exit, in exactly one place */
#ifdef C15_STRICT_OOM
#define FP_ADOPTED (g_pairs == 1 && g_pair_rc == HTP_OK)   /* a refused insert adopts nothing */
#else
#define FP_ADOPTED (g_pairs == 1)
#endif
#define FP_OWN(x) (((FP_ADOPTED && (g_pair_name == (x) || g_pair_value == (x))) ? 1 : 0) + (FP_NOW == (x) ? 1 : 0) + ((g_free_n == 1 && g_freed == (x)) ? 1 : 0))

void contract_htp_urlenp_add_field_piece(htp_urlenp_t *urlenp, const unsigned char *data, size_t startpos, size_t endpos, int last_char)
__CPROVER_requires(__CPROVER_is_fresh(urlenp, sizeof(*urlenp)))
__CPROVER_requires(urlenp->_state == C15_KEY || urlenp->_state == C15_VALUE)
__CPROVER_requires(urlenp->_name == NULL || __CPROVER_is_fresh(urlenp->_name, sizeof(bstr)))
/* parser invariant: a remembered key exists only while its value is being scanned */
__CPROVER_requires(urlenp->_state == C15_KEY ==> urlenp->_name == NULL)
/* the piece is a range of the chunk (what unit htp_urlenp_parse_partial proves about every call) */
__CPROVER_requires(startpos <= endpos && endpos <= VCAP && (data == NULL ? endpos == 0 : __CPROVER_is_fresh(data, endpos)))
__CPROVER_requires(last_char >= -1 && last_char <= 255)
/* after finalize() the only call is (NULL, 0, 0, -1) */
__CPROVER_requires(urlenp->_complete == 0 || (urlenp->_complete == 1 && data == NULL && last_char == -1))
__CPROVER_requires(g_bb_n <= VCAP && g_bb_app == 0 && g_bb_clr == 0 && g_bb_tostr == 0 && g_dupm_n == 0 && g_field == NULL && g_dupc_n == 0 && g_dupc_a == NULL &&
                   g_dupc_b == NULL && g_free_n == 0 && g_freed == NULL && g_dec_n == 0 && g_pairs == 0)
/* FRAME: of the parser object only _name is written (not _state, not the configuration) */
__CPROVER_assigns(urlenp->_name, FPC_ASSIGNS)
/* (A) field not finished: the piece is buffered if non-empty, nothing else happens */
__CPROVER_ensures(!FP_FIN ==> (g_pairs == 0 && FP_NOW == FP_N0 && g_dupm_n == 0 && g_bb_tostr == 0 && g_dupc_n == 0 && g_free_n == 0 && g_dec_n == 0 && g_bb_clr == 0 &&
    (FP_E ? (g_bb_app == 0 && g_bb_n == FP_B)
          : (g_bb_app == 1 && g_bb_app_ptr == data + startpos && g_bb_app_len == endpos - startpos && (g_bb_n == FP_B || g_bb_n == FP_B + 1)))))
/* (B) field finished: assembled from the buffered pieces + this piece, or from this piece alone; builder emptied */
__CPROVER_ensures((FP_FIN && FP_B > 0) ==> (g_bb_tostr == 1 && g_dupm_n == 0 &&
    (FP_E ? g_bb_app == 0 : (g_bb_app == 1 && g_bb_app_ptr == data + startpos && g_bb_app_len == endpos - startpos)) &&
    (g_field != NULL ? (g_bb_clr == 1 && g_bb_n == 0) : g_bb_clr == 0)))
__CPROVER_ensures((FP_FIN && FP_B == 0) ==> (g_bb_tostr == 0 && g_bb_app == 0 && g_bb_clr == 0 && g_bb_n == 0 &&
    (FP_E ? (g_dupm_n == 0 && g_field == NULL) : (g_dupm_n == 1 && g_dupm_ptr == data + startpos && g_dupm_len == endpos - startpos))))
/* (C) assembling failed: nothing else happens */
__CPROVER_ensures(FP_FIELD_OOM ==> (g_pairs == 0 && g_dupc_n == 0 && g_free_n == 0 && g_dec_n == 0 && FP_NOW == FP_N0))
/* (D) emission rule */
__CPROVER_ensures(!FP_FIELD_OOM ==> g_pairs == ((FP_EMIT && FP_ALLOC_OK) ? (size_t) 1 : (size_t) 0))
__CPROVER_ensures((!FP_FIELD_OOM && FP_EMIT) ==> (g_dupc_n <= FP_NEED && (g_pairs == 1 ==> g_dupc_n == FP_NEED)))
__CPROVER_ensures((!FP_FIELD_OOM && !FP_EMIT) ==> (g_dupc_n == 0 && g_free_n == 0 && g_dec_n == 0))
/* (E) the pair: name = the key (this field, or the remembered one), value = this field or ""; distinct strings;
 *     decoded after the split, name first, iff configured */
__CPROVER_ensures(g_pairs == 1 ==> (g_pair_name == FP_NAME && g_pair_value == FP_VALUE && g_pair_name != NULL && g_pair_value != NULL && g_pair_name != g_pair_value))
__CPROVER_ensures(g_pairs == 1 ==> (g_dec_n == (size_t) (urlenp->decode_url_encoding ? (FP_S == C15_KEY ? 1 : 2) : 0) &&
    (g_dec_n >= 1 ==> g_dec_a == g_pair_name) && (g_dec_n == 2 ==> g_dec_b == g_pair_value)))
__CPROVER_ensures(g_pairs == 0 ==> g_dec_n == 0)
/* (F) remembered key afterwards: only a key finished by '=' is remembered */
__CPROVER_ensures((FP_FIN && !FP_FIELD_OOM) ==> FP_NOW == ((FP_S == C15_KEY && !FP_K && last_char != FP_SEP) ? g_field : NULL))
/* (G) ownership: this field, both "" strings and the remembered key each end up in exactly one place
 *     (adopted by the table, remembered in _name, or freed once): no leak, no double free */
__CPROVER_ensures(g_free_n <= 1)
__CPROVER_ensures(g_field != NULL ==> FP_OWN(g_field) == 1)
__CPROVER_ensures((g_dupc_n >= 1 && g_dupc_a != NULL) ==> FP_OWN(g_dupc_a) == 1)
__CPROVER_ensures((g_dupc_n >= 2 && g_dupc_b != NULL) ==> FP_OWN(g_dupc_b) == 1)
__CPROVER_ensures(FP_N0 != NULL ==> FP_OWN(FP_N0) == 1)
#ifdef C15_STRICT_OOM
/* (H) the parser invariant holds again in the state the scanner moves to */
__CPROVER_ensures(((last_char == -1 ? FP_S : C15_NEXT(FP_SEP, last_char)) == C15_KEY) ==> urlenp->_name == NULL)
#else
__CPROVER_ensures((!FP_FIELD_OOM && (last_char == -1 ? FP_S : C15_NEXT(FP_SEP, last_char)) == C15_KEY) ==> urlenp->_name == NULL)
#endif
;

#endif
