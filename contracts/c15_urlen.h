/* Contracts for htp_urlencoded.c (C15; safety part = C01, allocation failure = C18).
 *
 * Post-conditions are taken from the property statement: "split on '&', split each piece at its
 * first '=', drop only a final empty piece, then decode name and value - in order, including
 * empty names and values; identical for every chunking".
 *
 * (1) htp_urlenp_parse_partial is the scanner.  Its only observable effect besides _state is the
 *     sequence of calls (start_i, end_i, c_i) it makes to htp_urlenp_add_field_piece; that callee is
 *     REPLACED by a logging stub and the split rule is stated over the call log (tiling law).
 * (2) htp_urlenp_add_field_piece is the piece handler; builder / table / allocation / decoder callees are
 *     REPLACED by counting stubs and the emission rule is stated as a transition table.
 */
#ifndef C15_URLEN_H
#define C15_URLEN_H

/* ------------------------------------------------------------------------------------------- */
/* (1) scanner                                                                                   */
/* ------------------------------------------------------------------------------------------- */

/* Logging stub of the piece handler (replace mode only).  Frame: the real handler writes
 * urlenp->_name (and builder / table contents) but neither _state, argument_separator nor the
 * input; unit htp_urlenp_add_field_piece proves that frame on the real code. */
void contract_fp_log(htp_urlenp_t *urlenp, const unsigned char *data, size_t startpos, size_t endpos, int last_char)
__CPROVER_requires(g_fp_n <= VCAP)
__CPROVER_assigns(FP_LOG_ASSIGNS, urlenp->_name)
__CPROVER_ensures(g_fp_n == __CPROVER_old(g_fp_n) + 1)
__CPROVER_ensures(g_fp_last_start == startpos && g_fp_last_end == endpos && g_fp_last_c == last_char && g_fp_last_state == urlenp->_state)
__CPROVER_ensures(__CPROVER_old(g_fp_n) == gk
    ? (g_fp_wit_start == startpos && g_fp_wit_end == endpos && g_fp_wit_c == last_char && g_fp_wit_state == urlenp->_state &&
       g_fp_wit_prev_end == __CPROVER_old(g_fp_last_end) && g_fp_wit_prev_c == __CPROVER_old(g_fp_last_c))
    : (g_fp_wit_start == __CPROVER_old(g_fp_wit_start) && g_fp_wit_end == __CPROVER_old(g_fp_wit_end) && g_fp_wit_c == __CPROVER_old(g_fp_wit_c) &&
       g_fp_wit_state == __CPROVER_old(g_fp_wit_state) && g_fp_wit_prev_end == __CPROVER_old(g_fp_wit_prev_end) && g_fp_wit_prev_c == __CPROVER_old(g_fp_wit_prev_c)))
;

#define PP_L (_data == NULL ? (size_t) 0 : len)          /* effective input length */
#define PP_S0 (__CPROVER_old(urlenp->_state))
#define PP_SEP (urlenp->argument_separator)
#define PP_VALID0 (PP_S0 == C15_KEY || PP_S0 == C15_VALUE)

htp_status_t contract_htp_urlenp_parse_partial(htp_urlenp_t *urlenp, const void *_data, size_t len)
__CPROVER_requires(__CPROVER_is_fresh(urlenp, sizeof(*urlenp)))
__CPROVER_requires(len <= VCAP && (_data == NULL || __CPROVER_is_fresh(_data, len)))
__CPROVER_requires(g_fp_n == 0 && g_fp_state0 == urlenp->_state)
__CPROVER_assigns(urlenp->_state, urlenp->_name, FP_LOG_ASSIGNS)
/* an invalid parser state is refused without touching anything */
__CPROVER_ensures(!PP_VALID0 ==> (__CPROVER_return_value == HTP_ERROR && g_fp_n == 0 && urlenp->_state == PP_S0))
__CPROVER_ensures(PP_VALID0 ==> (__CPROVER_return_value == HTP_OK && g_fp_n >= 1 && g_fp_n <= PP_L + 1))
/* the last piece runs to the end of the chunk and is flagged "unterminated" (-1); the parser is
 * left in the state that piece was scanned in */
__CPROVER_ensures(PP_VALID0 ==> (g_fp_last_end == PP_L && g_fp_last_c == -1 && urlenp->_state == g_fp_last_state))
/* tiling law for the gk-th call (gk arbitrary): starts right after the previous delimiter (0 for the
 * first), in the state selected by that delimiter ('&' -> KEY, '=' -> VALUE); ends at the FIRST byte
 * (witness gj: none earlier) that is '&', or '=' while in KEY state, and reports that byte; only the
 * last call is unterminated */
__CPROVER_ensures((PP_VALID0 && gk < g_fp_n) ==> FP_WIT_OK(UC(_data), PP_L, PP_S0, PP_SEP))
__CPROVER_ensures((PP_VALID0 && gk < g_fp_n && gk != g_fp_n - 1) ==> g_fp_wit_c != -1)
__CPROVER_ensures((PP_VALID0 && gk < g_fp_n && gk == g_fp_n - 1) ==> (g_fp_wit_c == -1 && g_fp_wit_end == PP_L && g_fp_wit_state == urlenp->_state))
/* configuration is not modified (also by the frame) */
__CPROVER_ensures(urlenp->argument_separator == __CPROVER_old(urlenp->argument_separator) && urlenp->_complete == __CPROVER_old(urlenp->_complete))
;

#endif
