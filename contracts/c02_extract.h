/* Models, harness helpers and contracts for the C02 units (parse fidelity, scoped to the extractors).
 * Included AFTER the real sources.  Three sections:
 *   1. bounded units: fixed-capacity bstr_dup_mem model, input builders, component snapshots
 *   2. contract units: provenance-logging stubs for bstr_dup_mem / bstr_dup_c / bstr_free, contracts of the line predicates,
 *      htp_chomp and the header / line parsers
 *   3. contract unit for htp_process_response_header_generic (merge of repeated response headers)
 */
#ifndef C02_EXTRACT_H
#define C02_EXTRACT_H

/* =====================================================================================================
 * 1. bounded units
 * ===================================================================================================== */
/* The unit's `pre` says `#define bstr_dup_mem c02_dup_mem_model` (CBMC only), so every bstr_dup_mem call of the
 * source under test allocates an object of CONSTANT capacity N: symbolic-size heap objects make the propositional
 * encoding explode (notes/c13.md).  Everything else of bstr.c is the real code (linked).  The real bstr_dup_mem is compared
 * with this model by unit c02_dup_model_lemma.  Native replays use the real bstr_dup_mem. */
#if defined(C02_DUP_MODEL) && !defined(VNATIVE)
bstr *c02_dup_mem_model(const void *data, size_t len) {
    VASSERT(len <= N, "bstr model: requested length within the unit's bound (no length wrap-around in the extractor)");
    bstr *b = malloc(sizeof(bstr) + (N));
    if (b == NULL) return NULL;
    b->len = len; b->size = len; b->realptr = NULL;
    for (size_t i = 0; i < (N); i++) if (i < len) ((unsigned char *) b + sizeof(bstr))[i] = ((const unsigned char *) data)[i];
    return b;
}
#endif

/* same idea for the two other allocating primitives used by extractors in htp_util.c (units rename them in `pre`) */
#if defined(C02_DUP_MODEL) && !defined(VNATIVE)
bstr *c02_dup_ex_model(const bstr *b, size_t offset, size_t len) {
    VASSERT(len <= N && offset <= bstr_len(b) && len <= bstr_len(b) - offset, "bstr model: requested range inside the source string");
    bstr *r = malloc(sizeof(bstr) + (N));
    if (r == NULL) return NULL;
    r->len = len; r->size = len; r->realptr = NULL;
    for (size_t i = 0; i < (N); i++) if (i < len) ((unsigned char *) r + sizeof(bstr))[i] = bstr_ptr(b)[offset + i];
    return r;
}
bstr *c02_alloc_model(size_t len) {
    VASSERT(len <= N, "bstr model: requested capacity within the unit's bound");
    bstr *r = malloc(sizeof(bstr) + (N));
    if (r == NULL) return NULL;
    r->len = 0; r->size = len; r->realptr = NULL;
    return r;
}
#endif

/* cookie unit: the three table calls of htp_parse_cookies_v0 / htp_parse_single_cookie_v0 are renamed to these stubs (CBMC and
 * native): lookup answers a given header, create answers a marker table (or NULL), addn CHECKS the (name, value) pair it is given
 * against the next cookie the reference finds after the previous one (so wire order = call order), takes ownership and succeeds.
 * Insertion order / case-insensitive lookup of the real table are C17's units.  Defined after C02_BOUNDED helpers. */
#ifdef C02_BOUNDED
#define CB(b) ((const unsigned char *)(b) + sizeof(bstr))   /* bytes of an inline bstr (realptr == NULL asserted first) */
/* input line: inline bstr in a heap object of CONSTANT capacity cap, length la <= cap (la may be symbolic) */
static bstr *c02_mk_line(const unsigned char *a, size_t la, size_t cap) {
    bstr *b = malloc(sizeof(bstr) + cap);
    if (b == NULL) return NULL;
    b->len = la; b->size = cap; b->realptr = NULL;
    for (size_t i = 0; i < cap; i++) ((unsigned char *) b + sizeof(bstr))[i] = a[i];
    return b;
}
#define C02_LINE_UNCHANGED(b, a, la, cap) do { \
    VASSERT((b)->len == (la) && (b)->size == (cap) && (b)->realptr == NULL, "the input's header is not modified"); \
    for (size_t i_ = 0; i_ < (cap); i_++) VASSERT(CB(b)[i_] == (a)[i_], "the input's bytes are not modified"); } while (0)
/* raw input buffer (header parsers take data + len): heap object of constant capacity */
static unsigned char *c02_mk_buf(const unsigned char *a, size_t cap) {
    unsigned char *d = malloc(cap ? cap : 1);
    if (d == NULL) return NULL;
    for (size_t i = 0; i < cap; i++) d[i] = a[i];
    return d;
}
/* snapshot of one reported component: taken once, so that every later check reads a local array */
typedef struct { int has; size_t len; unsigned char b[N ? N : 1]; } c02_comp_t;
static void c02_comp_get(const bstr *s, size_t la, c02_comp_t *c) {
    c->has = (s != NULL); c->len = 0;
    if (s != NULL) {
        VASSERT(s->realptr == NULL && s->len <= s->size, "component is a well-formed inline bstr");
        VASSERT(s->len <= la, "component is not longer than the input");
        c->len = s->len;
        for (size_t i = 0; i < N; i++) if (i < s->len && i < la) c->b[i] = CB(s)[i];
    }
}
/* component c equals a[o .. o+c.len) */
#define C02_SAME_BYTES(c, a, o, n, what) do { \
    VASSERT((o) + (c).len <= (n), what ": range lies inside the line"); \
    if ((o) + (c).len <= (n)) for (size_t i_ = 0; i_ < N; i_++) if (i_ < (c).len) \
        VASSERT((c).b[i_] == (a)[(o) + i_], what ": bytes are the line's bytes at that offset (nothing invented)"); } while (0)
#endif

#ifdef C02_COOKIE_STUBS
static htp_header_t *c02_ck_header; static const htp_table_t *c02_ck_headers; static int c02_ck_create_fails;
static int c02_ck_get_n, c02_ck_create_n; static size_t c02_ck_n;
static const unsigned char *c02_ck_a; static size_t c02_ck_la, c02_ck_pos;     /* the header value and the reference's cursor */
static htp_table_t c02_ck_table;
void *c02_stub_get_c(const htp_table_t *t, const char *key) {
    VASSERT(t == c02_ck_headers, "cookie lookup asks the transaction's request header table");
    VASSERT(key[0] == 'c' && key[1] == 'o' && key[2] == 'o' && key[3] == 'k' && key[4] == 'i' && key[5] == 'e' && key[6] == 0, "cookie lookup uses the key \"cookie\"");
    c02_ck_get_n++;
    return c02_ck_header;
}
htp_table_t *c02_stub_create(size_t size) { c02_ck_create_n++; return c02_ck_create_fails ? NULL : &c02_ck_table; }
htp_status_t c02_stub_addn(htp_table_t *t, const bstr *key, const void *el) {
    VASSERT(t == &c02_ck_table, "cookies are added to the table that was just created");
    VASSERT(key != NULL && el != NULL, "cookie name and value exist");
    c02_ck_n++;
    if (key != NULL && el != NULL) {
        const unsigned char *a = c02_ck_a; size_t la = c02_ck_la;
        c02_comp_t nm, vl; c02_comp_get(key, la, &nm); c02_comp_get((const bstr *) el, la, &vl);
        size_t no, nl, vo, vlen;
        int more = lr_next_cookie(a, la, &c02_ck_pos, &no, &nl, &vo, &vlen);
        VASSERT(more, "a cookie is reported only where the reference finds one (nothing invented)");
        if (more) {
            VASSERT(nm.len == nl && vl.len == vlen, "next cookie in wire order: name / value lengths equal the reference");
            if (nm.len == nl) C02_SAME_BYTES(nm, a, no, la, "cookie name");
            if (vl.len == vlen) C02_SAME_BYTES(vl, a, vo, la, "cookie value");
        }
        /* stated without the reference */
        VASSERT(nm.len >= 1 && !lr_isspace(nm.b[0]), "cookie name is not empty and does not start with white space");
        for (size_t i = 0; i < N; i++) { if (i < nm.len) VASSERT(nm.b[i] != '=' && nm.b[i] != ';', "no '=' or ';' inside a cookie name");
                                         if (i < vl.len) VASSERT(vl.b[i] != ';', "no ';' inside a cookie value"); }
        bstr_free((bstr *) key); bstr_free((bstr *) el);      /* the table owns them */
    }
    return HTP_OK;
}
#endif


/* =====================================================================================================
 * 2. contract units (dfcc): line predicates, htp_chomp, header parser with provenance-logging stubs
 * ===================================================================================================== */
#ifdef C02_CONTRACTS
#define C02_POFF(p) ((size_t) __CPROVER_POINTER_OFFSET(p))
#define C02_O(x) __CPROVER_old(x)

/* ---- htp_chomp: removes exactly the trailing CR / LF run; only *len is written ---- */
int contract_htp_chomp(unsigned char *data, size_t *len)
__CPROVER_requires(__CPROVER_is_fresh(len, sizeof(*len)) && *len <= VCAP && __CPROVER_is_fresh(data, *len) && g_c02_len0 == *len)
__CPROVER_assigns(*len)
__CPROVER_ensures(__CPROVER_return_value >= 0 && __CPROVER_return_value <= 2)
__CPROVER_ensures(*len <= C02_O(*len) && ((__CPROVER_return_value == 0) == (*len == C02_O(*len))))
__CPROVER_ensures(*len == 0 || !C02_ISCRLF(data[*len - 1]))
__CPROVER_ensures((gk >= *len && gk < C02_O(*len)) ==> C02_ISCRLF(data[gk]))
__CPROVER_ensures((gj >= *len && gj < C02_O(*len)) ==> C02_ISCRLF(data[gj]))
;
/* the same contract for a call site where len is the caller's local and data an interior / borrowed pointer (HOWTO 4) */
int contract_c02_chomp_site(unsigned char *data, size_t *len)
__CPROVER_requires(__CPROVER_rw_ok(len, sizeof(*len)) && __CPROVER_r_ok(data, *len))
__CPROVER_assigns(*len)
__CPROVER_ensures(__CPROVER_return_value >= 0 && __CPROVER_return_value <= 2)
__CPROVER_ensures(*len <= C02_O(*len) && ((__CPROVER_return_value == 0) == (*len == C02_O(*len))))
__CPROVER_ensures(*len == 0 || !C02_ISCRLF(data[*len - 1]))
__CPROVER_ensures((gk >= *len && gk < C02_O(*len)) ==> C02_ISCRLF(data[gk]))
__CPROVER_ensures((gj >= *len && gj < C02_O(*len)) ==> C02_ISCRLF(data[gj]))
;

/* ---- line predicates ---- */
int contract_htp_is_line_empty(unsigned char *data, size_t len)
__CPROVER_requires(len <= VCAP && __CPROVER_is_fresh(data, len))
__CPROVER_assigns()
__CPROVER_ensures(__CPROVER_return_value == (((len == 1 && C02_ISCRLF(data[0])) || (len == 2 && data[0] == 13 && data[1] == 10)) ? 1 : 0))
;
int contract_htp_is_line_whitespace(unsigned char *data, size_t len)
__CPROVER_requires(len <= VCAP && __CPROVER_is_fresh(data, len))
__CPROVER_assigns()
__CPROVER_ensures(__CPROVER_return_value == 0 || __CPROVER_return_value == 1)
__CPROVER_ensures(__CPROVER_return_value == 1 ==> (gk < len ==> ISSP(data[gk])))
__CPROVER_ensures((gk < len && !ISSP(data[gk])) ==> __CPROVER_return_value == 0)
__CPROVER_ensures(len == 0 ==> __CPROVER_return_value == 1)
;
int contract_htp_connp_is_line_folded(unsigned char *data, size_t len)
__CPROVER_requires(len <= VCAP && (data == NULL || __CPROVER_is_fresh(data, len)))
__CPROVER_assigns()
__CPROVER_ensures((data == NULL || len == 0) ==> __CPROVER_return_value == -1)
__CPROVER_ensures((data != NULL && len > 0) ==> __CPROVER_return_value == ((ISLWS(data[0]) || data[0] == 0) ? 1 : 0))
;

/* ---- stubs ---- */
void contract_c02_htp_log(htp_connp_t *connp, const char *file, int line, enum htp_log_level_t level, int code, const char *fmt, ...)
__CPROVER_requires(1) __CPROVER_assigns() __CPROVER_ensures(1);

/* bstr_dup_mem: the source range must lie inside the input line (ASSERTED at every call site: "no byte is taken from anywhere
 * else"); the call is logged in the first free slot; the answer is NULL exactly when the prophecy says so */
#define C02_OFF(data) (C02_POFF(data) - C02_POFF(g_c02_base))
#define C02_LOG_ASSIGNS g_c02_d1, g_c02_d2, g_c02_d3, g_c02_o1, g_c02_l1, g_c02_o2, g_c02_l2, g_c02_o3, g_c02_l3, g_c02_r1, g_c02_r2, g_c02_r3
#define C02_KEEP(n) (g_c02_d##n == C02_O(g_c02_d##n) && g_c02_o##n == C02_O(g_c02_o##n) && g_c02_l##n == C02_O(g_c02_l##n) && g_c02_r##n == C02_O(g_c02_r##n))
#define C02_PUT(n, data, len, rv) (g_c02_d##n == 1 && g_c02_o##n == C02_OFF(data) && g_c02_l##n == (len) && g_c02_r##n == (const void *) (rv) && \
                                   (((rv) == NULL) == (((g_c02_fail >> ((n) - 1)) & 1u) != 0)))
bstr *contract_c02_dup_mem(const void *data, size_t len)
__CPROVER_requires(g_c02_d3 == 0)
__CPROVER_requires(__CPROVER_same_object(data, g_c02_base) && C02_POFF(data) >= C02_POFF(g_c02_base) && C02_OFF(data) <= g_c02_len && len <= g_c02_len - C02_OFF(data))
__CPROVER_assigns(C02_LOG_ASSIGNS)
/* is_fresh FIRST: in replace mode it ASSIGNS the return value; the log clauses below must see the final pointer */
__CPROVER_ensures(__CPROVER_return_value == NULL || __CPROVER_is_fresh(__CPROVER_return_value, sizeof(bstr)))
__CPROVER_ensures(C02_O(g_c02_d1) == 0 ? (C02_PUT(1, data, len, __CPROVER_return_value) && C02_KEEP(2) && C02_KEEP(3))
                : C02_O(g_c02_d2) == 0 ? (C02_KEEP(1) && C02_PUT(2, data, len, __CPROVER_return_value) && C02_KEEP(3))
                                        : (C02_KEEP(1) && C02_KEEP(2) && C02_PUT(3, data, len, __CPROVER_return_value)))
;
/* bstr_free on the duplicates: NULL is a no-op; a second release of the same string is refused (asserted at the call site) */
void contract_c02_bstr_free(bstr *b)
__CPROVER_requires(b == NULL || ((const void *) b == g_c02_r1 && g_c02_f1 == 0) || ((const void *) b == g_c02_r2 && g_c02_f2 == 0))
__CPROVER_assigns(g_c02_f1, g_c02_f2)
__CPROVER_ensures(g_c02_f1 == ((b != NULL && (const void *) b == g_c02_r1) ? 1 : C02_O(g_c02_f1)))
__CPROVER_ensures(g_c02_f2 == ((b != NULL && (const void *) b != g_c02_r1 && (const void *) b == g_c02_r2) ? 1 : C02_O(g_c02_f2)))
;

/* ---- htp_parse_response_header_generic, any line length ----
 * Post: exactly two duplications, name first; the name starts at the start of the line; both ranges lie inside the line (also
 * asserted per call by the stub); name before value; EVERY byte of the line outside the two ranges is a colon, white space or a
 * line terminator (nothing dropped); on OK the header carries the two duplicates, on ERROR each non-NULL duplicate was released
 * exactly once; nothing but h's three fields and the transaction flags is written. */
htp_status_t contract_htp_parse_response_header_generic(htp_connp_t *connp, htp_header_t *h, unsigned char *data, size_t len)
__CPROVER_requires(__CPROVER_is_fresh(connp, sizeof(*connp)) && __CPROVER_is_fresh(connp->out_tx, sizeof(htp_tx_t)) && __CPROVER_is_fresh(h, sizeof(*h)))
__CPROVER_requires(len <= VCAP && __CPROVER_is_fresh(data, VCAP))      /* constant-size input object, symbolic length */
__CPROVER_requires(g_c02_base == (const void *) data && g_c02_len == len && g_c02_d1 == 0 && g_c02_d2 == 0 && g_c02_d3 == 0 && g_c02_f1 == 0 && g_c02_f2 == 0)
__CPROVER_requires(gk < VCAP)
#ifdef KNOWN_F_C02_RESP_HDR_LEN0
/* known finding F1: the line is not empty after removing its CR / LF bytes (gj = existential witness of a byte that stays) */
__CPROVER_requires(gj < len && !C02_ISCRLF(data[gj]))
#endif
__CPROVER_assigns(h->name, h->value, h->flags, connp->out_tx->flags, C02_LOG_ASSIGNS, g_c02_f1, g_c02_f2)
__CPROVER_ensures(__CPROVER_return_value == HTP_OK || __CPROVER_return_value == HTP_ERROR)
__CPROVER_ensures(g_c02_d1 == 1 && g_c02_d2 == 1 && g_c02_d3 == 0)
__CPROVER_ensures(g_c02_o1 == 0 && g_c02_l1 <= g_c02_o2 && g_c02_o2 <= len && g_c02_l2 <= len - g_c02_o2)
__CPROVER_ensures((gk < len && !(gk < g_c02_l1) && !(gk >= g_c02_o2 && gk < g_c02_o2 + g_c02_l2)) ==> (C02_O(data[gk]) == ':' || ISSP(C02_O(data[gk]))))
__CPROVER_ensures((__CPROVER_return_value == HTP_OK) == ((g_c02_fail & 3u) == 0))
__CPROVER_ensures(__CPROVER_return_value == HTP_OK ==> ((const void *) h->name == g_c02_r1 && (const void *) h->value == g_c02_r2 && g_c02_f1 == 0 && g_c02_f2 == 0))
__CPROVER_ensures(__CPROVER_return_value == HTP_ERROR ==> (g_c02_f1 == (g_c02_r1 != NULL) && g_c02_f2 == (g_c02_r2 != NULL)))
__CPROVER_ensures((h->flags & C02_O(h->flags)) == C02_O(h->flags) && (connp->out_tx->flags & C02_O(connp->out_tx->flags)) == C02_O(connp->out_tx->flags))
;
#endif

#endif
