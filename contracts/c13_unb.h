/* Contracts for the UNBOUNDED (loop-contract) units of the URI splitter, property C13: htp_parse_hostport, htp_parse_uri.
 * Included AFTER the real htp_util.c.  Ghosts: contracts/ghost_c03.h.  Units: units/c13_unb.py.  Notes: notes/c13_unb.md.
 * All offsets are relative to the first byte of the input string (see ghost_c03.h). */
#ifndef C13_UNB_H
#define C13_UNB_H

/* [p, p+n) lies inside the input bytes */
#define U_IN(p, n) (__CPROVER_same_object((p), g_u_base) && U_POFF(p) >= U_POFF(g_u_base) && U_OFF(p) <= g_u_len && (n) <= g_u_len - U_OFF(p))
#define U_O(x) __CPROVER_old(x)
/* the input string: an inline bstr in a heap object of CONSTANT capacity VCAP with a symbolic length <= VCAP, only read
 * (a symbolic-size object - RO_BSTR - does not leave propositional reduction here: pointer differences hostend - data, m - data) */
#define U_INPUT(b) (__CPROVER_is_fresh((b), sizeof(bstr) + VCAP) && (b)->realptr == NULL && (b)->size == VCAP && (b)->len <= VCAP)

/* ---- memchr: CBMC 6.11 has no model.  Contract = the C standard's text: NULL iff the byte does not occur in the first n bytes,
 * otherwise a pointer to its FIRST occurrence.  "No occurrence before" is stated for the witnesses gk / gj in absolute coordinates
 * (the caller's post-conditions use the same witnesses); g_u_mi is the existential witness of the reported position. */
#define U_MC_NONE(w, s, c, m) (((w) >= U_OFF(s) && (w) - U_OFF(s) < (m)) ==> UC(s)[(w) - U_OFF(s)] != (unsigned char) (c))
void *contract_u_memchr(const void *s, int c, size_t n)
__CPROVER_requires(U_IN(s, n) && __CPROVER_r_ok(s, n))
__CPROVER_assigns(g_u_mi)
__CPROVER_ensures(__CPROVER_return_value == NULL || (g_u_mi < n && __CPROVER_pointer_equals(__CPROVER_return_value, (void *) (UC(s) + g_u_mi))))
__CPROVER_ensures(__CPROVER_return_value != NULL ==> UC(s)[g_u_mi] == (unsigned char) c)
__CPROVER_ensures(U_MC_NONE(gk, s, c, __CPROVER_return_value == NULL ? n : g_u_mi))
__CPROVER_ensures(U_MC_NONE(gj, s, c, __CPROVER_return_value == NULL ? n : g_u_mi))
;

/* =====================================================================================================
 * htp_parse_hostport
 * ===================================================================================================== */
/* bstr_util_mem_trim at its one call site (&data, &len are locals): same post-conditions as the enforced contract_bstr_util_mem_trim
 * (c17_bstr.h, unit bstr_util_mem_trim), pointer validity instead of freshness; logs the trimmed window */
void contract_u_trim_site(unsigned char **data, size_t *len)
__CPROVER_requires(__CPROVER_w_ok(data, sizeof(*data)) && __CPROVER_w_ok(len, sizeof(*len)))
__CPROVER_requires((const void *) *data == g_u_base && *len == g_u_len && *len <= VCAP && __CPROVER_r_ok(*data, *len))
__CPROVER_assigns(*data, *len, g_u_toff, g_u_tlen)
__CPROVER_ensures(g_u_toff <= g_u_len && g_u_tlen <= g_u_len - g_u_toff && *len == g_u_tlen)
__CPROVER_ensures(__CPROVER_pointer_equals(*data, U_O(*data) + g_u_toff))
__CPROVER_ensures(*len > 0 ==> (!ISSP((*data)[0]) && !ISSP((*data)[*len - 1])))
__CPROVER_ensures((gk < g_u_len && (gk < g_u_toff || gk >= g_u_toff + g_u_tlen)) ==> ISSP(U_O(*data)[gk]))
__CPROVER_ensures((gj < g_u_len && (gj < g_u_toff || gj >= g_u_toff + g_u_tlen)) ==> ISSP(U_O(*data)[gj]))
;

/* bstr_dup_mem inside htp_parse_hostport: the source range must lie inside the input (ASSERTED at every call site); first call =
 * host, second call = port text; the answer is NULL or a fresh string header (every allocation may fail) */
#define U_HP_LOG g_u_hp
#define U_KEEP(n) (g_u_d##n == U_O(g_u_d##n) && g_u_o##n == U_O(g_u_o##n) && g_u_l##n == U_O(g_u_l##n) && g_u_r##n == U_O(g_u_r##n))
#define U_PUT(n, data, len, rv) (g_u_d##n == 1 && g_u_o##n == U_OFF(data) && g_u_l##n == (len) && g_u_r##n == (const void *) (rv))
bstr *contract_u_hp_dup(const void *data, size_t len)
__CPROVER_requires(g_u_d2 == 0)
__CPROVER_requires(U_IN(data, len))
__CPROVER_assigns(U_HP_LOG)
__CPROVER_ensures(__CPROVER_return_value == NULL || __CPROVER_is_fresh(__CPROVER_return_value, sizeof(bstr)))
__CPROVER_ensures(U_O(g_u_d1) == 0 ? (U_PUT(1, data, len, __CPROVER_return_value) && U_KEEP(2))
                                   : (U_KEEP(1) && U_PUT(2, data, len, __CPROVER_return_value)))
;
/* bstr_free: only ever on the first duplicate, at most once */
void contract_u_hp_free(bstr *b)
__CPROVER_requires(b == NULL || ((const void *) b == g_u_r1 && g_u_d1 == 1 && g_u_f1 == 0))
__CPROVER_assigns(g_u_f1)
__CPROVER_ensures(g_u_f1 == (b != NULL ? 1 : U_O(g_u_f1)))
;
/* bstr_to_lowercase: only ever on the first duplicate (never on the input) */
bstr *contract_u_hp_lower(bstr *b)
__CPROVER_requires(b != NULL && (const void *) b == g_u_r1 && g_u_d1 == 1)
__CPROVER_assigns(g_u_low)
__CPROVER_ensures(g_u_low == 1 && __CPROVER_return_value == b)
;
/* htp_parse_port at its call sites: post-condition of the enforced contract_htp_parse_port (c17_num.h, unit htp_parse_port);
 * the range it is applied to is logged */
htp_status_t contract_u_parse_port_site(unsigned char *data, size_t len, int *port, int *invalid)
__CPROVER_requires(g_u_pp == 0 && U_IN(data, len) && len <= VCAP && __CPROVER_r_ok(data, len))
__CPROVER_requires(__CPROVER_w_ok(port, sizeof(int)) && __CPROVER_w_ok(invalid, sizeof(int)))
__CPROVER_assigns(*port, *invalid, g_u_pp, g_u_ppo, g_u_ppl)
__CPROVER_ensures(__CPROVER_return_value == HTP_OK && g_u_pp == 1 && g_u_ppo == U_OFF(data) && g_u_ppl == len)
__CPROVER_ensures((*port >= 1 && *port <= 65535 && *invalid == U_O(*invalid)) || (*port == -1 && *invalid == 1))
;

/* The contract.  D = input bytes, L = their number, [T, T+N) = the part without leading / trailing white space.
 * From the C13 statement (host, port = contiguous ordered sub-ranges separated only by the delimiter, re-join = input; numeric port
 * = value of the port text in 1..65535, invalid otherwise) and the function's documentation (hostname NULL iff invalid; `invalid`
 * set if any part is invalid; OK / ERROR = allocation failure). */
#define U_D (bstr_ptr(hostport))
#define U_L (bstr_len(hostport))
#define U_T g_u_toff
#define U_N g_u_tlen
#define U_OKW (__CPROVER_return_value == HTP_OK && U_T <= U_L && U_N <= U_L - U_T)       /* OK, window inside the input (guards reads) */
#define U_WIN(k, a, b) ((k) >= (a) && (k) < (b) && (k) < U_L)
htp_status_t contract_htp_parse_hostport(bstr *hostport, bstr **hostname, bstr **port, int *port_number, int *invalid)
__CPROVER_requires(U_INPUT(hostport))
__CPROVER_requires(__CPROVER_is_fresh(hostname, sizeof(*hostname)) && (port == NULL || __CPROVER_is_fresh(port, sizeof(*port))))
__CPROVER_requires(__CPROVER_is_fresh(port_number, sizeof(int)) && __CPROVER_is_fresh(invalid, sizeof(int)))
__CPROVER_requires(g_u_base == (const void *) bstr_ptr(hostport) && g_u_len == bstr_len(hostport))
__CPROVER_requires(g_u_d1 == 0 && g_u_d2 == 0 && g_u_f1 == 0 && g_u_pp == 0 && g_u_low == 0)
__CPROVER_assigns(*hostname, *port_number, *invalid, U_HP_LOG, g_u_f1, g_u_pp, g_u_ppo, g_u_ppl, g_u_low, g_u_mi, g_u_toff, g_u_tlen; port != NULL: *port)
__CPROVER_ensures(__CPROVER_return_value == HTP_OK || __CPROVER_return_value == HTP_ERROR)
__CPROVER_ensures(U_T <= U_L && U_N <= U_L - U_T)
__CPROVER_ensures(*invalid == 0 || *invalid == 1)
__CPROVER_ensures((*port_number >= 1 && *port_number <= 65535) || *port_number == -1)      /* on every path, also ERROR */
/* --- ownership (C18): ERROR iff a duplication failed; then nothing is handed out and the host copy was released exactly once */
__CPROVER_ensures((__CPROVER_return_value == HTP_ERROR) == ((g_u_d1 && g_u_r1 == NULL) || (g_u_d2 && g_u_r2 == NULL)))
__CPROVER_ensures(__CPROVER_return_value == HTP_ERROR ==> (*hostname == NULL && (port != NULL ==> *port == NULL) && g_u_f1 == (g_u_d1 && g_u_r1 != NULL)))
__CPROVER_ensures(__CPROVER_return_value == HTP_OK ==> ((const void *) *hostname == (g_u_d1 ? g_u_r1 : NULL) && g_u_f1 == 0 &&
                                                       (port != NULL ==> (const void *) *port == (g_u_d2 ? g_u_r2 : NULL))))
__CPROVER_ensures((port == NULL || !g_u_d1) ==> !g_u_d2)
/* --- provenance: the host starts where the trimmed input starts; the port text is exactly the range the number is parsed from */
__CPROVER_ensures(g_u_d1 ==> (g_u_o1 == U_T && g_u_l1 <= U_N && U_N > 0))
__CPROVER_ensures((U_OKW && g_u_pp && port != NULL) ==> (g_u_d2 && g_u_o2 == g_u_ppo && g_u_l2 == g_u_ppl))
/* --- port rule: no port text => -1; port text => 1..65535 or (-1 and invalid) */
__CPROVER_ensures((U_OKW && !g_u_pp) ==> (*port_number == -1 && !g_u_d2))
__CPROVER_ensures((U_OKW && g_u_pp) ==> ((*port_number >= 1 && *port_number <= 65535) || (*port_number == -1 && *invalid == 1)))
/* --- colon rule / adjacency: host, [white space,] ':', port text, and the port text ends where the trimmed input ends */
__CPROVER_ensures((U_OKW && g_u_pp) ==> (g_u_d1 && g_u_ppo >= U_T + 1 && g_u_ppo <= U_T + U_N && g_u_ppo + g_u_ppl == U_T + U_N &&
                                         U_T + g_u_l1 <= g_u_ppo - 1 && U_D[g_u_ppo - 1] == ':'))
/* --- empty after trimming: nothing reported, invalid */
__CPROVER_ensures((U_OKW && U_N == 0) ==> (!g_u_d1 && !g_u_pp && *invalid == 1))
/* --- name (not an IP literal): always reported; without ':' it is the whole trimmed input; with ':' it ends before the FIRST
 *     colon, only white space lies between it and that colon, and it does not end in white space */
__CPROVER_ensures((U_OKW && U_N > 0 && U_D[U_T] != '[') ==> g_u_d1)
__CPROVER_ensures((U_OKW && U_N > 0 && U_D[U_T] != '[' && !g_u_pp) ==> (g_u_l1 == U_N && *invalid == 0 && (U_WIN(gk, U_T, U_T + U_N) ==> U_D[gk] != ':')))
__CPROVER_ensures((U_OKW && U_N > 0 && U_D[U_T] != '[' && g_u_pp && g_u_d1 && U_T + g_u_l1 <= g_u_ppo - 1 && g_u_ppo <= U_T + U_N) ==>
                  ((U_WIN(gk, U_T, g_u_ppo - 1) ==> U_D[gk] != ':') && (U_WIN(gj, U_T + g_u_l1, g_u_ppo - 1) ==> ISSP(U_D[gj])) &&
                   (g_u_l1 > 0 ==> !ISSP(U_D[U_T + g_u_l1 - 1]))))
/* --- IP literal "[...]": no ']' => no host, invalid.  Otherwise the host ends with the FIRST ']'; then either the input ends
 *     (valid, no port), or ':' + port text follows, or - anything else - the authority is flagged invalid and no port is reported
 *     (this is the input class that htp_parse_uri drops silently, finding F-C13-IPV6; here it is flagged, as documented) */
__CPROVER_ensures((U_OKW && U_N > 0 && U_D[U_T] == '[' && !g_u_d1) ==> (*invalid == 1 && !g_u_pp && (U_WIN(gk, U_T, U_T + U_N) ==> U_D[gk] != ']')))
__CPROVER_ensures((U_OKW && U_N > 0 && U_D[U_T] == '[' && g_u_d1 && g_u_l1 <= U_N) ==>
                  (g_u_l1 >= 2 && U_D[U_T + g_u_l1 - 1] == ']' && (U_WIN(gk, U_T, U_T + g_u_l1 - 1) ==> U_D[gk] != ']') &&
                   (g_u_l1 == U_N ? (!g_u_pp && *invalid == 0)
                    : U_D[U_T + g_u_l1] == ':' ? (g_u_pp && g_u_ppo == U_T + g_u_l1 + 1)
                    : (!g_u_pp && *invalid == 1))))
/* --- lower-casing (not part of C13; recorded because the bounded reference states it): only a name without port is lower-cased */
__CPROVER_ensures(g_u_low ==> (U_OKW && g_u_d1 && !g_u_pp && U_N > 0 && U_D[U_T] != '['))
;

/* =====================================================================================================
 * htp_parse_uri
 * ===================================================================================================== */
/* bstr_dup_mem inside htp_parse_uri: source range inside the input (ASSERTED at each of the 13 call sites); NULL or a fresh header.
 * The call is logged under a NON-DETERMINISTIC component label g_u_which (0..7 = s u w h t p q f): a replaced callee cannot know
 * which field its caller is about to fill.  contract_htp_parse_uri states its laws for the labelling that is consistent with the
 * fields (U_CONS); since the stub allows EVERY labelling, the consistent one is among those explored (and the unit's canary is only
 * reachable under U_CONS with all of password, port, query and fragment present, so the premise is not vacuous). */
#define U_ULOG g_u_ul
#define U_USLOT(i, X, data, len, rv) (g_u_which == (i) \
    ? (g_u_c##X == 1 && g_u_o##X == U_OFF(data) && g_u_l##X == (len) && g_u_r##X == (const void *) (rv)) \
    : (g_u_c##X == U_O(g_u_c##X) && g_u_o##X == U_O(g_u_o##X) && g_u_l##X == U_O(g_u_l##X) && g_u_r##X == U_O(g_u_r##X)))
#define U_UOLDC (g_u_which == 0 ? U_O(g_u_cs) : g_u_which == 1 ? U_O(g_u_cu) : g_u_which == 2 ? U_O(g_u_cw) : g_u_which == 3 ? U_O(g_u_ch) : \
                 g_u_which == 4 ? U_O(g_u_ct) : g_u_which == 5 ? U_O(g_u_cp) : g_u_which == 6 ? U_O(g_u_cq) : U_O(g_u_cf))
bstr *contract_u_uri_dup(const void *data, size_t len)
__CPROVER_requires(U_IN(data, len))
__CPROVER_assigns(U_ULOG)
__CPROVER_ensures(__CPROVER_return_value == NULL || __CPROVER_is_fresh(__CPROVER_return_value, sizeof(bstr)))
__CPROVER_ensures(g_u_which >= 0 && g_u_which <= 7)
__CPROVER_ensures(g_u_clash == ((U_O(g_u_clash) != 0 || U_UOLDC != 0) ? 1 : 0))
__CPROVER_ensures(U_USLOT(0, s, data, len, __CPROVER_return_value) && U_USLOT(1, u, data, len, __CPROVER_return_value) &&
                  U_USLOT(2, w, data, len, __CPROVER_return_value) && U_USLOT(3, h, data, len, __CPROVER_return_value) &&
                  U_USLOT(4, t, data, len, __CPROVER_return_value) && U_USLOT(5, p, data, len, __CPROVER_return_value) &&
                  U_USLOT(6, q, data, len, __CPROVER_return_value) && U_USLOT(7, f, data, len, __CPROVER_return_value))
;

/* D = bytes of the target, L = their number.  E(X) = end of component X. */
#define UU (*uri)
#define UU_D (bstr_ptr(input))
#define UU_L (bstr_len(input))
#define U_E(X) (g_u_o##X + g_u_l##X)
#define U_FIELD(f, X) ((const void *) UU->f == (g_u_c##X ? g_u_r##X : (const void *) NULL))
/* the labelling agrees with the fields of the uri */
#define U_CONS (!g_u_clash && U_FIELD(scheme, s) && U_FIELD(username, u) && U_FIELD(password, w) && U_FIELD(hostname, h) && \
                U_FIELD(port, t) && U_FIELD(path, p) && U_FIELD(query, q) && U_FIELD(fragment, f))
#define U_OKC (__CPROVER_return_value == HTP_OK && UU != NULL && U_CONS)
#define U_RNG(X) (!g_u_c##X || (g_u_o##X <= UU_L && g_u_l##X <= UU_L - g_u_o##X))
#define U_ALLIN (U_RNG(s) && U_RNG(u) && U_RNG(w) && U_RNG(h) && U_RNG(t) && U_RNG(p) && U_RNG(q) && U_RNG(f))
#define U_AT(i, c) ((i) < UU_L && UU_D[(i)] == (c))                 /* guarded read of one delimiter byte */
#define U_AS (g_u_ls + 3)                                           /* start of the authority: scheme ':' '/' '/' */
#define U_HS (g_u_cu ? (g_u_cw ? U_E(w) : U_E(u)) + 1 : U_AS)       /* start of host[:port]: after the '@', or the authority start */
#define U_NEXTH (g_u_ct ? g_u_ot - 1 : g_u_op)                      /* where the host must end: at the ':' before the port, or at the path */
#define U_LASTE (g_u_cf ? U_E(f) : g_u_cq ? U_E(q) : U_E(p))        /* end of the last component */
/* Known finding F-C13-IPV6 (known_findings.json; bounded probe: unit ref_parse_uri_prealloc with -DC13_NO_KNOWN_IPV6): the host is a
 * bracketed literal "[...]" and the byte after its ']' is still inside the authority and is not ':'.  For exactly this class the code
 * drops the bytes between the ']' and the ':' / the end of the authority; the adjacency law host -> next is then only claimed as
 * "no overlap" (<=).  With -DC13_NO_KNOWN_IPV6 the law is stated without the carve-out and the unit FAILS (probe). */
#ifndef C13_NO_KNOWN_IPV6
#define U_JUNK (g_u_lh >= 2 && U_AT(g_u_oh, '[') && U_AT(U_E(h) - 1, ']') && U_E(h) < UU_L && !U_AEND(UU_D[U_E(h)]) && UU_D[U_E(h)] != ':')
#else
#define U_JUNK 0
#endif

int contract_htp_parse_uri(bstr *input, htp_uri_t **uri)
__CPROVER_requires(U_INPUT(input))
/* `uri` and the optional pre-allocated structure are REAL objects built by the harness (valid by construction; the clauses below only
 * say which of the two call forms is meant).  With __CPROVER_is_fresh(uri) / is_fresh(*uri) the value set of `uri` collected every
 * object any later is_fresh call created (13 replaced bstr_dup_mem sites): each (*uri)->field became a nested 14-way case split and
 * "converting SSA" ran out of memory (30 GB). */
__CPROVER_requires(__CPROVER_rw_ok(uri, sizeof(*uri)))
__CPROVER_requires(g_u_prealloc ? (*uri != NULL && __CPROVER_rw_ok(*uri, sizeof(htp_uri_t)) && (*uri)->scheme == NULL && (*uri)->username == NULL &&
                                   (*uri)->password == NULL && (*uri)->hostname == NULL && (*uri)->port == NULL && (*uri)->path == NULL &&
                                   (*uri)->query == NULL && (*uri)->fragment == NULL)
                                : *uri == NULL)
__CPROVER_requires(g_u_base == (const void *) bstr_ptr(input) && g_u_len == bstr_len(input) && g_u_clash == 0)
__CPROVER_requires(g_u_cs == 0 && g_u_cu == 0 && g_u_cw == 0 && g_u_ch == 0 && g_u_ct == 0 && g_u_cp == 0 && g_u_cq == 0 && g_u_cf == 0)
__CPROVER_assigns(*uri, U_ULOG, g_u_mi; g_u_prealloc: __CPROVER_object_whole(*uri))
__CPROVER_ensures(__CPROVER_return_value == HTP_OK || __CPROVER_return_value == HTP_ERROR)
__CPROVER_ensures(g_u_prealloc ==> *uri == U_O(*uri))
__CPROVER_ensures(__CPROVER_return_value == HTP_OK ==> *uri != NULL)
/* a target that starts with '/' has no scheme and no authority (directly on the fields, no labelling needed) */
__CPROVER_ensures((__CPROVER_return_value == HTP_OK && UU != NULL && UU_L > 0 && UU_D[0] == '/') ==>
                  (UU->scheme == NULL && UU->username == NULL && UU->password == NULL && UU->hostname == NULL && UU->port == NULL))
/* the splitter never sets the numeric port */
__CPROVER_ensures((g_u_prealloc && UU != NULL) ==> UU->port_number == U_O((*uri)->port_number))
#if U_LVL >= 1
/* every component is a sub-range of the target (also asserted per call by the stub) */
__CPROVER_ensures(U_OKC ==> U_ALLIN)
/* nothing reported <=> the target is empty or all spaces */
__CPROVER_ensures((U_OKC && !g_u_cp) ==> (!g_u_cs && !g_u_cu && !g_u_cw && !g_u_ch && !g_u_ct && !g_u_cq && !g_u_cf && (gk < UU_L ==> UU_D[gk] == ' ')))
/* otherwise there is a path, and the last component ends exactly where the trailing spaces begin */
__CPROVER_ensures((U_OKC && g_u_cp && U_ALLIN) ==> (U_LASTE >= 1 && UU_D[U_LASTE - 1] != ' ' && ((gk >= U_LASTE && gk < UU_L) ==> UU_D[gk] == ' ')))
/* presence: authority only after a scheme; user / password / port only inside an authority; password only after a user */
__CPROVER_ensures((U_OKC && g_u_cp) ==> ((g_u_ch ==> g_u_cs) && ((g_u_cu || g_u_ct) ==> g_u_ch) && (g_u_cw ==> g_u_cu)))
/* scheme at 0, followed by ':' */
__CPROVER_ensures((U_OKC && g_u_cp && g_u_cs) ==> (g_u_os == 0 && U_AT(g_u_ls, ':')))
/* authority: "//" after the scheme's colon; user at its start; ':' password; '@'; host starts after the '@' / at the authority start */
__CPROVER_ensures((U_OKC && g_u_cp && g_u_ch && U_ALLIN) ==> (U_AT(g_u_ls + 1, '/') && U_AT(g_u_ls + 2, '/') && g_u_oh == U_HS))
__CPROVER_ensures((U_OKC && g_u_cp && g_u_ch && g_u_cu && U_ALLIN) ==> (g_u_ou == U_AS && U_AT(U_HS - 1, '@')))
__CPROVER_ensures((U_OKC && g_u_cp && g_u_ch && g_u_cw && U_ALLIN) ==> (g_u_ow == U_E(u) + 1 && U_AT(U_E(u), ':')))
/* host -> ':' port -> path (bracketed literal followed by junk: finding F-C13-IPV6, see U_JUNK) */
__CPROVER_ensures((U_OKC && g_u_cp && g_u_ch && g_u_ct && U_ALLIN) ==> (g_u_ot >= 1 && U_AT(g_u_ot - 1, ':') && U_E(t) == g_u_op))
/* (gj == E(host) instantiates the universal witness at the one position the carve-out predicate reads: "this byte is not an authority
 *  terminator / not a colon" is known to the proof only through the witness facts of the scanning loop and of memchr) */
__CPROVER_ensures((U_OKC && g_u_cp && g_u_ch && U_ALLIN && (!g_u_ct || g_u_ot >= 1) && gj == U_E(h)) ==> (U_JUNK ? U_E(h) <= U_NEXTH : U_E(h) == U_NEXTH))
/* no authority: the path starts right after the scheme's colon, or at 0 */
__CPROVER_ensures((U_OKC && g_u_cp && !g_u_ch) ==> g_u_op == (g_u_cs ? g_u_ls + 1 : 0))
/* path '?' query '#' fragment */
__CPROVER_ensures((U_OKC && g_u_cp && g_u_cq && U_ALLIN) ==> (g_u_oq == U_E(p) + 1 && U_AT(U_E(p), '?')))
__CPROVER_ensures((U_OKC && g_u_cp && g_u_cf && U_ALLIN) ==> (g_u_of == (g_u_cq ? U_E(q) : U_E(p)) + 1 && U_AT(g_u_cq ? U_E(q) : U_E(p), '#')))
#endif
#if U_LVL >= 2
/* the split is the OUTERMOST one (first delimiter wins): no ':' in the scheme, no '/' '?' '#' in the authority, no '?' '#' in the
 * path, no '#' in the query (witness gj) */
__CPROVER_ensures((U_OKC && g_u_cp && g_u_cs && U_ALLIN && gj < g_u_ls) ==> UU_D[gj] != ':')
__CPROVER_ensures((U_OKC && g_u_cp && g_u_ch && U_ALLIN && gj >= U_AS && gj < g_u_op) ==> !U_AEND(UU_D[gj]))
__CPROVER_ensures((U_OKC && g_u_cp && U_ALLIN && gj >= g_u_op && gj < U_E(p)) ==> !U_PEND(UU_D[gj]))
__CPROVER_ensures((U_OKC && g_u_cp && g_u_cq && U_ALLIN && gj >= g_u_oq && gj < U_E(q)) ==> UU_D[gj] != '#')
#endif
;

/* =====================================================================================================
 * htp_parse_uri_hostport (loop-free): the `invalid` verdict of htp_parse_hostport and of htp_validate_hostname becomes HTP_HOSTU_INVALID
 * ===================================================================================================== */
/* htp_parse_hostport at this call site: consequences of the enforced contract_htp_parse_hostport (result lattice, invalid in {0,1},
 * ERROR => nothing handed out); result and verdict are logged */
htp_status_t contract_u_hostport_site(bstr *hostport, bstr **hostname, bstr **port, int *port_number, int *invalid)
__CPROVER_requires(__CPROVER_w_ok(hostname, sizeof(*hostname)) && __CPROVER_w_ok(port, sizeof(*port)))
__CPROVER_requires(__CPROVER_w_ok(port_number, sizeof(int)) && __CPROVER_w_ok(invalid, sizeof(int)))
__CPROVER_assigns(*hostname, *port, *port_number, *invalid, g_u_hrc, g_u_hinv)
__CPROVER_ensures((__CPROVER_return_value == HTP_OK || __CPROVER_return_value == HTP_ERROR) && g_u_hrc == __CPROVER_return_value)
__CPROVER_ensures((*invalid == 0 || *invalid == 1) && g_u_hinv == *invalid)
__CPROVER_ensures(__CPROVER_return_value == HTP_ERROR ==> (*hostname == NULL && *port == NULL))
__CPROVER_ensures((*port_number >= 1 && *port_number <= 65535) || *port_number == -1)
;
/* htp_validate_hostname: 0 / 1, reads only (bounded units of C11 / C13 decide WHICH names are valid) */
int contract_u_validate_site(bstr *hostname)
__CPROVER_requires(hostname != NULL && g_u_valc == 0)
__CPROVER_assigns(g_u_valc, g_u_val)
__CPROVER_ensures(g_u_valc == 1 && (__CPROVER_return_value == 0 || __CPROVER_return_value == 1) && g_u_val == __CPROVER_return_value)
;
int contract_htp_parse_uri_hostport(htp_connp_t *connp, bstr *hostport, htp_uri_t *uri)
__CPROVER_requires(__CPROVER_is_fresh(connp, sizeof(*connp)) && __CPROVER_is_fresh(connp->in_tx, sizeof(htp_tx_t)) && __CPROVER_is_fresh(uri, sizeof(*uri)))
__CPROVER_requires(g_u_valc == 0)
__CPROVER_assigns(uri->hostname, uri->port, uri->port_number, connp->in_tx->flags, g_u_hrc, g_u_hinv, g_u_valc, g_u_val)
__CPROVER_ensures(__CPROVER_return_value == g_u_hrc && (__CPROVER_return_value == HTP_OK || __CPROVER_return_value == HTP_ERROR))
/* allocation failure: nothing handed out, nothing flagged, the name is not looked at */
__CPROVER_ensures(__CPROVER_return_value == HTP_ERROR ==> (connp->in_tx->flags == U_O(connp->in_tx->flags) && uri->hostname == NULL && uri->port == NULL && !g_u_valc))
/* success: the name is validated iff there is one; exactly HTP_HOSTU_INVALID is added iff the authority or the name is invalid */
__CPROVER_ensures(__CPROVER_return_value == HTP_OK ==> (g_u_valc == (uri->hostname != NULL) &&
                  connp->in_tx->flags == (U_O(connp->in_tx->flags) | ((g_u_hinv || (g_u_valc && g_u_val == 0)) ? HTP_HOSTU_INVALID : 0))))
__CPROVER_ensures((uri->port_number >= 1 && uri->port_number <= 65535) || uri->port_number == -1)
;

#endif
