/* C12 ghost state and loop-invariant vocabulary (must precede the real sources, HOWTO section 3). */
#ifndef GHOST_C12_H
#define GHOST_C12_H
/* entry values of the side-effect channels of the decoders ("flags only grow", "status only takes configured values") */
#define GHOSTS_C12(X) X(uint64_t, g12_flags0) X(int, g12_status0)
/* expected-status values a decoder may store: the entry value or one of the two non-IGNORE enumerators of htp_unwanted_t */
#define C12_STATUS_OK(v) ((v) == g12_status0 || (v) == 400 || (v) == 404)
#define C12_FLAGS_GROW(v) (((v) & g12_flags0) == g12_flags0)
/* UTF-8 DFA: states the loop can be in at its head, and how many bytes of the current character were consumed */
#define C12_UTF8_HEAD(state, counter) (((state) == 0 && (counter) == 0) || ((state) == 2 && (counter) >= 1 && (counter) <= 3) || \
    ((state) == 3 && (counter) >= 1 && (counter) <= 2) || (((state) == 5 || (state) == 7 || (state) == 8) && (counter) == 1))
#endif
