/* Ghost state and specification macros of the UNBOUNDED C02 extractor units (units/c02_unb.py, contracts/c02_unb.h).
 * Included before the real sources by ghost.h, so loop invariants may refer to everything defined here.
 * (The file name is the free fragment slot ghost_c04.h; the list macro must be called GHOSTS_C04.)
 *
 * The provenance log itself (g_c02_base/len, g_c02_dN/oN/lN/rN, g_c02_fail, g_c02_f1/f2) is the one of ghost_c02.h and is reused.
 *   g_c04_addn / g_c04_addn_fail   cookie units: sticky "the pair was handed to the cookie table" / prophecy "the table refuses it" (list growth failed)
 *   g_c04_tbl       identity of the cookie table (never dereferenced)
 *   g_c04_calls / g_c04_end / g_c04_hit / g_c04_sfail   htp_parse_cookies_v0: sticky "a piece was handed to the single-cookie parser", end offset of the last
 *                   piece handed over (pieces go out in wire order), sticky "the piece containing witness gk was handed over", prophecy "the single-cookie parser fails"
 *   g_c04_tfail     prophecy: htp_table_create answers NULL;  g_c04_tnew: the table it answered
 *   g_c04_low       sticky: bstr_to_lowercase was applied to the copy (htp_parse_ct_header)
 *   g_c04_nohdr     prophecy: the request has no Cookie header
 *   g_c04_ad / g_c04_alen / g_c04_ar / g_c04_afail   bstr_alloc log (quoted-string extractor): sticky call flag, requested capacity, answer, prophecy NULL
 *   g_c04_src       identity of the source string of bstr_dup_ex
 */
#ifndef GHOST_C04_H
#define GHOST_C04_H
#define GHOSTS_C04(X) X(int, g_c04_addn) X(int, g_c04_addn_fail) X(const void *, g_c04_tbl) \
    X(int, g_c04_calls) X(size_t, g_c04_end) X(int, g_c04_hit) X(int, g_c04_sfail) X(int, g_c04_tfail) X(const void *, g_c04_tnew) \
    X(int, g_c04_low) X(const void *, g_c04_src) X(int, g_c04_nohdr) \
    X(int, g_c04_ad) X(size_t, g_c04_alen) X(const void *, g_c04_ar) X(int, g_c04_afail)

/* flag word f grew from f0 and differs from it at most in `bits` */
#define C04_ONLY(f, f0, bits) ((((f) & (f0)) == (f0)) && (((f) & ~(uint64_t) (bits)) == ((f0) & ~(uint64_t) (bits))))

/* cookie separators */
#define C04_SEMI 59
/* htp_is_space(): SP HT LF VT FF CR -- the same set as isspace() in the C locale = ISSP of vtables.h (lemma spec_tables_match_ctype) */
#endif
