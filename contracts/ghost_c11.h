/* Ghost state of the C11 units (ambiguity indicators).  Included before the real sources by ghost.h.
 *
 * Prophecy ghosts: havocked once by the generated entry point and never assigned afterwards; the stub
 * contracts of REPLACED callees return them, so the enforced function's post-condition can be written
 * as a decision table over the answers its callees gave.
 *   g_c11_hdr_*      what htp_table_get_c(headers, "<key>") answers (NULL = header absent)
 *   g_c11_te_chunked what htp_header_has_token(T-E value, "chunked") answers (HTP_OK / HTP_ERROR)
 *   g_c11_cl_value   what htp_parse_content_length(C-L value) answers (any int64)
 *   g_c11_hp_*       what htp_parse_header_hostport(Host value) answers: rc, hostname != NULL, invalid bit, port
 *   g_c11_host_cmp   what bstr_cmp_nocase(Host hostname, URI hostname) answers
 * Log ghosts (sticky flags, assigned by stubs; 0 on entry):
 *   g_c11_seen_cl    the "content-length" lookup happened (=> the whole T-E/C-L arbitration block runs)
 *   g_c11_seen_ct    the "content-type" lookup happened (=> the whole host block has run)
 * Producer unit (htp_process_request_header_generic):
 *   g_c11_ex         the header already stored under the same name; htp_table_get answers it iff g_c11_have_ex (else NULL = first occurrence)
 *   g_c11_isclen     bstr_cmp_c_nocase(name, "Content-Length") answer
 *   g_c11_newlen     length of the freshly parsed value;  g_c11_name / g_c11_value / g_c11_h the parsed header's parts
 *   g_c11_free_name / g_c11_free_value   sticky: bstr_free was called on the parsed name / value
 *   g_c11_add_n      sticky: htp_table_add was called; g_c11_add_rc its answer; g_c11_add_el / g_c11_add_key its arguments
 *   g_c11_exp_n, g_c11_addmem_n, g_c11_addb_n   sticky call flags of bstr_expand / bstr_add_mem_noex / bstr_add_noex
 *   g_c11_exp_req    the size bstr_expand was asked for; g_c11_sep0/1 the two separator bytes appended
 */
#ifndef GHOST_C11_H
#define GHOST_C11_H
#define GHOSTS_C11(X) \
    X(void *, g_c11_hdr_cl) X(void *, g_c11_hdr_te) X(void *, g_c11_hdr_host) X(void *, g_c11_hdr_ct) X(void *, g_c11_hdr_ce) \
    X(int, g_c11_te_chunked) X(int64_t, g_c11_cl_value) \
    X(int, g_c11_hp_rc) X(int, g_c11_hp_valid) X(int, g_c11_hp_invalid) X(int, g_c11_hp_port) X(int, g_c11_host_cmp) \
    X(int, g_c11_seen_cl) X(int, g_c11_seen_ct) \
    X(void *, g_c11_ex) X(int, g_c11_have_ex) X(int, g_c11_isclen) X(size_t, g_c11_newlen) X(void *, g_c11_name) X(void *, g_c11_value) X(void *, g_c11_h) \
    X(int, g_c11_parse_rc) X(int, g_c11_free_name) X(int, g_c11_free_value) X(int, g_c11_add_n) X(int, g_c11_add_rc) X(const void *, g_c11_add_el) X(const void *, g_c11_add_key) \
    X(int, g_c11_exp_n) X(int, g_c11_exp_fail) X(size_t, g_c11_exp_req) X(int, g_c11_addmem_n) X(int, g_c11_addb_n) X(unsigned char, g_c11_sep0) X(unsigned char, g_c11_sep1) X(const void *, g_c11_addb_src)
/* capacity of the header values handed to the (replaced) value parsers */
#ifndef C11_VALCAP
#define C11_VALCAP 32
#endif
/* label characters htp_validate_hostname documents: letters, digits, '-' and (relaxed) '_'.  One table read per use (HOWTO 4). */
static const unsigned char c11_hostch[256] = {0,0,0,0,0,0,0,0,0,0,0,0,0,0,0,0,0,0,0,0,0,0,0,0,0,0,0,0,0,0,0,0,0,0,0,0,0,0,0,0,0,0,0,0,0,1,0,0,1,1,1,1,1,1,1,1,1,1,0,0,0,0,0,0,0,1,1,1,1,1,1,1,1,1,1,1,1,1,1,1,1,1,1,1,1,1,1,1,1,1,1,0,0,0,0,1,0,1,1,1,1,1,1,1,1,1,1,1,1,1,1,1,1,1,1,1,1,1,1,1,1,1,1,0,0,0,0,0,0,0,0,0,0,0,0,0,0,0,0,0,0,0,0,0,0,0,0,0,0,0,0,0,0,0,0,0,0,0,0,0,0,0,0,0,0,0,0,0,0,0,0,0,0,0,0,0,0,0,0,0,0,0,0,0,0,0,0,0,0,0,0,0,0,0,0,0,0,0,0,0,0,0,0,0,0,0,0,0,0,0,0,0,0,0,0,0,0,0,0,0,0,0,0,0,0,0,0,0,0,0,0,0,0,0,0,0,0,0,0,0,0,0,0,0,0,0,0,0,0,0,0,0,0,0,0,0};
#define C11_HOSTCH(c) (c11_hostch[(unsigned char)(c)])
/* white space of a header-value token list as libhtp documents it for htp_is_space: SP HT LF VT FF CR */
#define C11_ISSPACE(c) ((c) == 0x20 || ((c) >= 0x09 && (c) <= 0x0d))
#endif
