/* C15 / C12: the decoder is entered with THIS TRANSACTION's configuration (htp_tx_set_config may give a transaction its own one), in the right decoding
 * context, and reports into this transaction's flags / expected status.  The decoder itself is units htp_urldecode_inplace_ex (C12). */
#ifndef C15_SITE_H
#define C15_SITE_H
htp_status_t contract_c15_site_urldecode_ex(htp_cfg_t *cfg, enum htp_decoder_ctx_t ctx, bstr *input, uint64_t *flags, int *expected_status_code)
__CPROVER_requires(g_ud_n == 0 && flags != NULL && expected_status_code != NULL)
__CPROVER_assigns(g_ud_n, g_ud_cfg, g_ud_ctx, g_ud_in, g_ud_flags, g_ud_status, g_ud_rc, *flags, *expected_status_code)
__CPROVER_ensures(g_ud_n == 1 && g_ud_cfg == (const void *) cfg && g_ud_ctx == (int) ctx && g_ud_in == (const void *) input && g_ud_flags == (const void *) flags &&
                  g_ud_status == (const void *) expected_status_code && g_ud_rc == __CPROVER_return_value)
/* the decoder only ever ADDS indicator bits (enforced on the real decoder: "flags only grow") */
__CPROVER_ensures((*flags & __CPROVER_old(*flags)) == __CPROVER_old(*flags));
#define UD_TX(tx) (__CPROVER_is_fresh(tx, sizeof(htp_tx_t)) && __CPROVER_is_fresh((tx)->connp, sizeof(htp_connp_t)))
htp_status_t contract_htp_tx_urldecode_params_inplace(htp_tx_t *tx, bstr *input)
__CPROVER_requires(UD_TX(tx) && g_ud_n == 0)
__CPROVER_assigns(g_ud_n, g_ud_cfg, g_ud_ctx, g_ud_in, g_ud_flags, g_ud_status, g_ud_rc, tx->flags, tx->response_status_expected_number)
__CPROVER_ensures(g_ud_n == 1 && g_ud_cfg == (const void *) tx->cfg && g_ud_ctx == HTP_DECODER_URLENCODED && g_ud_in == (const void *) input)
__CPROVER_ensures(g_ud_flags == (const void *) &tx->flags && g_ud_status == (const void *) &tx->response_status_expected_number && __CPROVER_return_value == g_ud_rc)
__CPROVER_ensures((tx->flags & __CPROVER_old(tx->flags)) == __CPROVER_old(tx->flags));
htp_status_t contract_htp_tx_urldecode_uri_inplace(htp_tx_t *tx, bstr *input)
__CPROVER_requires(UD_TX(tx) && g_ud_n == 0)
__CPROVER_assigns(g_ud_n, g_ud_cfg, g_ud_ctx, g_ud_in, g_ud_flags, g_ud_status, g_ud_rc, tx->flags, tx->response_status_expected_number)
__CPROVER_ensures(g_ud_n == 1 && g_ud_cfg == (const void *) tx->cfg && g_ud_ctx == HTP_DECODER_URL_PATH && g_ud_in == (const void *) input)
__CPROVER_ensures(g_ud_status == (const void *) &tx->response_status_expected_number && __CPROVER_return_value == g_ud_rc)
__CPROVER_ensures((tx->flags & __CPROVER_old(tx->flags)) == __CPROVER_old(tx->flags));
#endif
