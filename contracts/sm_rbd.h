/* Response framing decision: htp_connp_RES_BODY_DETERMINE (htp_response.c) under contract.
 *
 * Carries the response-side clauses of C16 (CONNECT / 101 => tunnel hand-over), C06/C11 (framing decision table, smuggling
 * indicator, "identity framing enters the body state with bytes owed == Content-Length > 0"), C05 (the documented 100-continue
 * restart is the ONLY place where response_progress moves backwards) and the shared state contract of C09 (RS_COMMON_POST).
 *
 * Every callee is REPLACED by a stub that answers with an unconstrained prophecy ghost (ghost_sm.h, GHOSTS_SM_RBD), so the
 * post-condition is a decision table over (request method, status, which headers exist, what the value parsers answered).
 * The post-conditions are written from the property statements, not from the code. */
#ifndef SM_RBD_H
#define SM_RBD_H
#include "sm.h"

#ifndef RBD_VALCAP
#define RBD_VALCAP 16
#endif
#define RBD_HDR(g) ((htp_header_t *)(g))
#define RBD_HAS(f, bit) (((f) & (bit)) != 0)
#define RBD_VAL(g) ((const void *) RBD_HDR(g)->value)
/* a ghost header: absent, or a real header object whose value is a real inline bstr of capacity RBD_VALCAP */
#define RBD_GHOST_HDR(g) ((g) == NULL || (__CPROVER_is_fresh((g), sizeof(htp_header_t)) && \
    __CPROVER_is_fresh(RBD_HDR(g)->value, sizeof(bstr) + RBD_VALCAP) && RBD_HDR(g)->value->realptr == NULL && \
    RBD_HDR(g)->value->size == RBD_VALCAP && RBD_HDR(g)->value->len <= RBD_VALCAP))
/* white space as libhtp documents it for htp_is_space: SP HT LF VT FF CR */
#define RBD_ISSPACE(c) ((c) == 0x20 || ((c) >= 0x09 && (c) <= 0x0d))

#define RS_PRE(c, SELF) (CUR_OUT(c) && TX_OUT(c) && !g_in_gap && RS_SELF(c, SELF))

/* ================= stubs of the callees ===================================================================== */
/* lookup by key literal; the framing headers are looked up among the RESPONSE headers, Expect among the REQUEST headers */
#define RBD_KEY_CL(k) ((k)[0] == 'c' && (k)[8] == 'l')
#define RBD_KEY_CT(k) ((k)[0] == 'c' && (k)[8] == 't')
#define RBD_KEY_TE(k) ((k)[0] == 't')
#define RBD_KEY_EXP(k) ((k)[0] == 'e')
void *contract_rbd_htp_table_get_c(const htp_table_t *table, const char *ckey)
__CPROVER_requires(ckey != NULL && (RBD_KEY_CL(ckey) || RBD_KEY_CT(ckey) || RBD_KEY_TE(ckey) || RBD_KEY_EXP(ckey)))
__CPROVER_requires((const void *) table == (RBD_KEY_EXP(ckey) ? g_rbd_req_tbl : g_rbd_res_tbl))
/* no lookup after the table has been cleared */
__CPROVER_requires(g_rbd_tclear_n == 0 && g_rbd_getidx_n == 0)
__CPROVER_assigns()
__CPROVER_ensures(RBD_KEY_CL(ckey) ==> __CPROVER_pointer_equals(__CPROVER_return_value, g_rbd_hdr_cl))
__CPROVER_ensures(RBD_KEY_CT(ckey) ==> __CPROVER_pointer_equals(__CPROVER_return_value, g_rbd_hdr_ct))
__CPROVER_ensures(RBD_KEY_TE(ckey) ==> __CPROVER_pointer_equals(__CPROVER_return_value, g_rbd_hdr_te))
__CPROVER_ensures(RBD_KEY_EXP(ckey) ==> __CPROVER_pointer_equals(__CPROVER_return_value, g_rbd_hdr_exp))
;
/* Content-Length parser: applied to the C-L header's value; answers the prophecy (range: see the top-level requires) */
int64_t contract_rbd_htp_parse_content_length(bstr *b, htp_connp_t *connp)
__CPROVER_requires(g_rbd_hdr_cl != NULL && (const void *) b == RBD_VAL(g_rbd_hdr_cl))
__CPROVER_assigns()
__CPROVER_ensures(__CPROVER_return_value == g_rbd_clv)
;
/* "chunked" search in the T-E value */
int contract_rbd_bstr_index_of_c_nocasenorzero(const bstr *bhaystack, const char *cneedle)
__CPROVER_requires(g_rbd_hdr_te != NULL && (const void *) bhaystack == RBD_VAL(g_rbd_hdr_te) && cneedle != NULL && cneedle[0] == 'c' && cneedle[1] == 'h' && cneedle[7] == 0)
__CPROVER_assigns()
__CPROVER_ensures(__CPROVER_return_value == g_rbd_te_idx)
;
/* case-insensitive compare, two call sites: (Expect value, "100-continue") and (T-E value, "chunked") */
int contract_rbd_bstr_cmp_c_nocase(const bstr *b, const char *cstr)
__CPROVER_requires(cstr != NULL && (cstr[0] == '1' || cstr[0] == 'c'))
__CPROVER_requires(cstr[0] == '1' ? (g_rbd_hdr_exp != NULL && (const void *) b == RBD_VAL(g_rbd_hdr_exp) && cstr[1] == '0' && cstr[2] == '0' && cstr[3] == '-' && cstr[4] == 'c' && cstr[12] == 0)
                                  : (g_rbd_hdr_te != NULL && (const void *) b == RBD_VAL(g_rbd_hdr_te)))
__CPROVER_assigns()
__CPROVER_ensures(__CPROVER_return_value == (cstr[0] == '1' ? g_rbd_exp_cmp : g_rbd_te_cmp))
;
/* "multipart/byteranges" search in the C-T value */
int contract_rbd_bstr_index_of_c_nocase(const bstr *bhaystack, const char *cneedle)
__CPROVER_requires(g_rbd_hdr_ct != NULL && (const void *) bhaystack == RBD_VAL(g_rbd_hdr_ct) && cneedle != NULL && cneedle[0] == 'm' && cneedle[9] == '/' && cneedle[10] == 'b')
__CPROVER_assigns()
__CPROVER_ensures(__CPROVER_return_value == g_rbd_mp_idx)
;
/* lower-cased copy of the C-T value: NULL (allocation failure), or a fresh inline string of the same length */
bstr *contract_rbd_bstr_dup_lower(const bstr *b)
__CPROVER_requires(g_rbd_hdr_ct != NULL && (const void *) b == RBD_VAL(g_rbd_hdr_ct))
__CPROVER_assigns()
/* (written as "NULL or fresh": an is_fresh under an implication leaves the result an unconstrained pointer on the other branch and
 *  every later write through it blows up the encoding) */
__CPROVER_ensures(__CPROVER_return_value == NULL || (__CPROVER_is_fresh(__CPROVER_return_value, sizeof(bstr) + RBD_VALCAP) && __CPROVER_return_value->realptr == NULL &&
    __CPROVER_return_value->size == RBD_VALCAP && __CPROVER_return_value->len == b->len))
__CPROVER_ensures((__CPROVER_return_value == NULL) == (g_rbd_dup_fail != 0))
;
void contract_rbd_bstr_adjust_len(bstr *b, size_t newlen)
__CPROVER_requires(__CPROVER_rw_ok(b, sizeof(bstr)) && newlen <= b->size)
__CPROVER_assigns(b->len)
__CPROVER_ensures(b->len == newlen)
;
int contract_rbd_htp_is_space(int c)
__CPROVER_requires(1) __CPROVER_assigns()
__CPROVER_ensures(__CPROVER_return_value == (RBD_ISSPACE(c) ? 1 : 0))
;
/* ---- call log of the 100-continue header release loop ------------------------------------------------------ */
size_t contract_rbd_htp_table_size(const htp_table_t *table)
__CPROVER_requires((const void *) table == g_rbd_res_tbl && g_rbd_tclear_n == 0)
__CPROVER_assigns()
__CPROVER_ensures(__CPROVER_return_value == g_rbd_hn)
;
/* headers are fetched by index 0, 1, 2, ... (each index once, below the table size, before the table is cleared), and only after
 * the header fetched before, its name and its value have been released; the answer is a live header with live, distinct name / value strings */
#define RBD_ALL_RELEASED(n) (g_rbd_relname_n == (n) && g_rbd_relval_n == (n) && g_rbd_hfree_n == (n))
void *contract_rbd_htp_table_get_index(const htp_table_t *table, size_t idx, bstr **key)
__CPROVER_requires((const void *) table == g_rbd_res_tbl && key == NULL && g_rbd_tclear_n == 0)
__CPROVER_requires(idx == g_rbd_getidx_n && idx < g_rbd_hn && RBD_ALL_RELEASED(g_rbd_getidx_n))
__CPROVER_assigns(g_rbd_getidx_n, g_rbd_last_h, g_rbd_last_name, g_rbd_last_value)
__CPROVER_ensures(g_rbd_getidx_n == O(g_rbd_getidx_n) + 1)
/* the log pointers are ASSIGNED (pointer_equals in an assumed ensures), not assumed equal: assuming "ghost == fresh object" is refuted by
 * symex's value sets from the second call on and would make everything after it vacuous */
#define RBD_RET_H ((htp_header_t *) __CPROVER_return_value)
__CPROVER_ensures(__CPROVER_is_fresh(__CPROVER_return_value, sizeof(htp_header_t)) && __CPROVER_pointer_equals(g_rbd_last_h, __CPROVER_return_value) &&
    __CPROVER_is_fresh(RBD_RET_H->name, sizeof(bstr)) && __CPROVER_pointer_equals(g_rbd_last_name, (void *) RBD_RET_H->name) &&
    __CPROVER_is_fresh(RBD_RET_H->value, sizeof(bstr)) && __CPROVER_pointer_equals(g_rbd_last_value, (void *) RBD_RET_H->value))
;
/* release of a header string: only the name or the value of the header fetched last, only while that header is still live,
 * and only if not released yet (a second release is refused) */
void contract_rbd_bstr_free(bstr *b)
__CPROVER_requires(g_rbd_getidx_n >= 1 && g_rbd_tclear_n == 0 && g_rbd_hfree_n < g_rbd_getidx_n && ((const void *) b == g_rbd_last_name || (const void *) b == g_rbd_last_value))
__CPROVER_requires((const void *) b == g_rbd_last_name ? g_rbd_relname_n < g_rbd_getidx_n : g_rbd_relval_n < g_rbd_getidx_n)
__CPROVER_assigns(g_rbd_relname_n, g_rbd_relval_n)
__CPROVER_ensures(g_rbd_relname_n == ((const void *) b == g_rbd_last_name ? g_rbd_getidx_n : O(g_rbd_relname_n)))
__CPROVER_ensures(g_rbd_relval_n == ((const void *) b == g_rbd_last_name ? O(g_rbd_relval_n) : g_rbd_getidx_n))
;
/* release of the header structure: CBMC 6.11 (dfcc) forbids deallocation inside a loop that is closed by a loop contract (loop write sets
 * are created with allow_deallocate = false, so the built-in free fails "ptr is freeable" there whatever it is handed).  free is therefore
 * REPLACED by this logging stub: the argument must be the header fetched last (a live heap object, base address), not released yet. */
void contract_rbd_free(void *ptr)
__CPROVER_requires(ptr != NULL && (const void *) ptr == g_rbd_last_h && __CPROVER_is_freeable(ptr))
__CPROVER_requires(g_rbd_getidx_n >= 1 && g_rbd_tclear_n == 0 && g_rbd_hfree_n < g_rbd_getidx_n)
__CPROVER_assigns(g_rbd_hfree_n)
__CPROVER_ensures(g_rbd_hfree_n == g_rbd_getidx_n)
;
/* the table is emptied once, after every header has been fetched and released */
void contract_rbd_htp_table_clear(htp_table_t *table)
__CPROVER_requires((const void *) table == g_rbd_res_tbl && g_rbd_tclear_n == 0)
__CPROVER_requires(g_rbd_getidx_n == g_rbd_hn && RBD_ALL_RELEASED(g_rbd_hn))
__CPROVER_assigns(g_rbd_tclear_n)
__CPROVER_ensures(g_rbd_tclear_n == 1)
;
/* ---- the RESPONSE_HEADERS transition ------------------------------------------------------------------------- */
/* Frame = what the real htp_tx_state_response_headers writes (content-coding set-up, raw-data receiver flush; the same frame as its
 * written contract in c05_life.h): it never assigns out_state, the stream states, the cursor, the framing fields or tx->flags.
 * Result: OK, or the refusal of a callback (STOP / ERROR), or ERROR.  Called at most once (asserted at the call site), never after a restart. */
htp_status_t contract_rbd_htp_tx_state_response_headers(htp_tx_t *tx)
__CPROVER_requires(tx != NULL && __CPROVER_rw_ok(tx, sizeof(*tx)) && __CPROVER_rw_ok(tx->connp, sizeof(htp_connp_t)) && tx->connp->out_tx == tx && g_txstate_n == 0 && g_rbd_tclear_n == 0)
__CPROVER_assigns(g_txstate_n, g_txstate_which, g_txstate_rc, tx->response_content_encoding, tx->response_content_encoding_processing,
    tx->connp->out_decompressor, tx->connp->out_data_receiver_hook, tx->connp->out_current_receiver_offset)
__CPROVER_ensures(g_txstate_n == 1 && g_txstate_which == 12 && g_txstate_rc == __CPROVER_return_value)
__CPROVER_ensures(__CPROVER_return_value == HTP_OK || __CPROVER_return_value == HTP_STOP || __CPROVER_return_value == HTP_ERROR)
__CPROVER_ensures(tx->connp->out_current_receiver_offset == O(tx->connp->out_current_receiver_offset) || tx->connp->out_current_receiver_offset == tx->connp->out_current_read_offset)
;

/* ================= the decision table ======================================================================== */
#define B_ST(c)       ((c)->out_tx->response_status_number)
#define B_CONNECT(c)  ((c)->out_tx->request_method_number == HTP_M_CONNECT)
#define B_HEAD(c)     ((c)->out_tx->request_method_number == HTP_M_HEAD)
#define B_2XX(c)      (B_ST(c) >= 200 && B_ST(c) <= 299)
#define B_TE          (g_rbd_hdr_te != NULL)
#define B_CL          (g_rbd_hdr_cl != NULL)
#define B_CT          (g_rbd_hdr_ct != NULL)
#define B_EXP         (g_rbd_hdr_exp != NULL)
#define B_CL_REP      (B_CL && RBD_HAS(RBD_HDR(g_rbd_hdr_cl)->flags, HTP_FIELD_REPEATED))
/* (a) accepted CONNECT; (c) 101 switching protocols; (r) the documented 100-continue restart.  Mutually exclusive by the status number. */
#define B_A(c)        (B_CONNECT(c) && B_2XX(c))
#define B_C(c)        (!B_A(c) && B_ST(c) == 101 && !B_TE && !B_CL)
#define B_R(c)        (!B_A(c) && B_ST(c) == 100 && !B_TE && (!B_CL || g_rbd_clv <= 0))
/* (b) refused CONNECT */
#define B_B(c)        (B_CONNECT(c) && !B_2XX(c))
/* 4xx answer to a request that announced Expect: 100-continue and whose body has not started */
#define B_EXPECT(c)   (B_ST(c) >= 400 && B_ST(c) <= 499 && (c)->in_content_length > 0 && (c)->in_body_data_left == (c)->in_content_length && B_EXP && g_rbd_exp_cmp == 0)
/* the ordinary framing decision */
#define B_N(c)        (!B_A(c) && !B_C(c) && !B_R(c))
#define B_NOBODY_ST(c) (((B_ST(c) >= 100 && B_ST(c) <= 199) || B_ST(c) == 204 || B_ST(c) == 304) && !B_TE && !B_CL)
#define B_BODY(c)     (B_N(c) && !B_HEAD(c) && !B_NOBODY_ST(c))
#define B_DUPFAIL(c)  (B_BODY(c) && B_CT && g_rbd_dup_fail != 0)
#define B_FRAMED(c)   (B_BODY(c) && !(B_CT && g_rbd_dup_fail != 0))
#define B_CHUNKED(c)  (B_FRAMED(c) && B_TE && g_rbd_te_idx != -1)
#define B_BYCL(c)     (B_FRAMED(c) && !(B_TE && g_rbd_te_idx != -1) && B_CL)
#define B_BYCLOSE(c)  (B_FRAMED(c) && !(B_TE && g_rbd_te_idx != -1) && !B_CL)
#define B_MULTIPART   (B_CT && g_rbd_mp_idx != -1)
/* the RESPONSE_HEADERS transition ran exactly once and its result is the result of this call */
#define B_TXS_RAN     (g_txstate_n == 1 && g_txstate_which == 12 && __CPROVER_return_value == g_txstate_rc)
#define B_TXS_NOT     (g_txstate_n == 0)
#define B_TX(c)       ((c)->out_tx)
#define B_KEEP(c, f)  ((c)->f == O((c)->f))

htp_status_t contract_htp_connp_RES_BODY_DETERMINE(htp_connp_t *connp)
__CPROVER_requires(RS_PRE(connp, htp_connp_RES_BODY_DETERMINE))
/* state fact: the only transition into this state (RES_HEADERS, htp_response.c:899-903) is taken with progress == HEADERS */
__CPROVER_requires(connp->out_tx->response_progress == HTP_RESPONSE_HEADERS)
/* the interim-response counter is an int: bounded so that the increment does not overflow */
__CPROVER_requires(connp->out_tx->seen_100continue >= 0 && connp->out_tx->seen_100continue < INT_MAX)
/* prophecies */
__CPROVER_requires(RBD_GHOST_HDR(g_rbd_hdr_cl) && RBD_GHOST_HDR(g_rbd_hdr_te) && RBD_GHOST_HDR(g_rbd_hdr_ct) && RBD_GHOST_HDR(g_rbd_hdr_exp))
__CPROVER_requires(g_rbd_res_tbl == (const void *) connp->out_tx->response_headers && g_rbd_req_tbl == (const void *) connp->out_tx->request_headers)
/* what the Content-Length parser is known to answer (enforced on the real function: unit htp_parse_content_length, c17_num.h) */
__CPROVER_requires(g_rbd_clv >= -2 || g_rbd_clv == -1001 || g_rbd_clv == -1003)
/* logs start empty */
__CPROVER_requires(g_txstate_n == 0 && g_rbd_getidx_n == 0 && RBD_ALL_RELEASED(0) && g_rbd_tclear_n == 0)
/* frame: NO cursor field (read / consume offsets, stream offset, chunk pointer and length), no message or entity length */
__CPROVER_assigns(g_txstate_n, g_txstate_which, g_txstate_rc, g_rbd_getidx_n, g_rbd_relname_n, g_rbd_relval_n, g_rbd_hfree_n, g_rbd_last_h, g_rbd_last_name, g_rbd_last_value, g_rbd_tclear_n,
    connp->out_state, connp->in_state, connp->in_status, connp->out_status, connp->out_data_other_at_tx_end, connp->out_content_length, connp->out_body_data_left,
    connp->out_decompressor, connp->out_data_receiver_hook, connp->out_current_receiver_offset,
    connp->out_tx->response_transfer_coding, connp->out_tx->response_content_type, connp->out_tx->response_content_length, connp->out_tx->response_progress,
    connp->out_tx->flags, connp->out_tx->seen_100continue, connp->out_tx->response_content_encoding, connp->out_tx->response_content_encoding_processing)

/* ---- C16 ---------------------------------------------------------------------------------------------------- */
/* (a) accepted CONNECT: the response side wraps up and waits (the request side probes the tunnel later); neither stream state moves */
__CPROVER_ensures(B_A(connp) ==> (connp->out_state == htp_connp_RES_FINALIZE && B_TXS_RAN && B_KEEP(connp, in_status) && B_KEEP(connp, out_status) &&
    B_KEEP(connp, out_data_other_at_tx_end) && B_KEEP(connp, out_tx->response_transfer_coding) && B_KEEP(connp, out_tx->response_progress) && B_KEEP(connp, out_tx->flags) &&
    B_KEEP(connp, out_body_data_left) && B_KEEP(connp, out_content_length)))
/* (b) refused CONNECT: request parsing is unblocked (a request-side ERROR stays); unless it is a 407, stop at the end of this transaction.
 * A 101 answer to a CONNECT falls under (b) AND (c): the statement says "a 101 answer puts both directions into tunnel mode", so for in_status (c) takes
 * precedence (TUNNEL, not DATA); the stop-at-tx-end note of (b) still applies. */
__CPROVER_ensures((B_B(connp) && !B_C(connp)) ==> connp->in_status == (O(connp->in_status) == HTP_STREAM_ERROR ? HTP_STREAM_ERROR : HTP_STREAM_DATA))
__CPROVER_ensures((B_B(connp) && B_ST(connp) != 407) ==> connp->out_data_other_at_tx_end == 1)
__CPROVER_ensures(!(B_B(connp) && B_ST(connp) != 407) ==> B_KEEP(connp, out_data_other_at_tx_end))
/* (c) 101 without T-E and C-L: both directions into tunnel mode at once (a request-side ERROR stays) */
__CPROVER_ensures(B_C(connp) ==> (connp->out_status == HTP_STREAM_TUNNEL && connp->in_status == (O(connp->in_status) == HTP_STREAM_ERROR ? HTP_STREAM_ERROR : HTP_STREAM_TUNNEL) &&
    connp->out_state == htp_connp_RES_FINALIZE && B_TXS_RAN &&
    B_KEEP(connp, out_tx->response_transfer_coding) && B_KEEP(connp, out_tx->response_progress) && B_KEEP(connp, out_tx->flags) &&
    B_KEEP(connp, out_body_data_left) && B_KEEP(connp, out_content_length)))
/* (d) nothing else touches the stream states */
__CPROVER_ensures(!B_C(connp) ==> B_KEEP(connp, out_status))
__CPROVER_ensures((!B_C(connp) && !B_B(connp)) ==> B_KEEP(connp, in_status))

/* ---- C05: the documented restart after an interim 100 response ---------------------------------------------- */
__CPROVER_ensures(B_R(connp) ==> (__CPROVER_return_value == HTP_OK && connp->out_state == htp_connp_RES_LINE && connp->out_tx->response_progress == HTP_RESPONSE_LINE &&
    connp->out_tx->seen_100continue == O(connp->out_tx->seen_100continue) + 1 && B_TXS_NOT &&
    /* every stored header fetched once; its name, its value and the header itself released once each; then the table emptied once */
    g_rbd_tclear_n == 1 && g_rbd_getidx_n == g_rbd_hn && RBD_ALL_RELEASED(g_rbd_hn) &&
    B_KEEP(connp, out_tx->response_transfer_coding) && B_KEEP(connp, out_tx->flags) && B_KEEP(connp, out_body_data_left) && B_KEEP(connp, out_content_length)))
/* everywhere else: no header is released, the counter stays, and progress never moves backwards (unchanged, or advanced to BODY) */
__CPROVER_ensures(!B_R(connp) ==> (g_rbd_tclear_n == 0 && g_rbd_getidx_n == 0 && RBD_ALL_RELEASED(0) && B_KEEP(connp, out_tx->seen_100continue) &&
    (B_KEEP(connp, out_tx->response_progress) || connp->out_tx->response_progress == HTP_RESPONSE_BODY) && connp->out_tx->response_progress >= O(connp->out_tx->response_progress)))

/* ---- 4xx + Expect: 100-continue: the request side skips the body it never sent; in_state moves under exactly this condition ---- */
__CPROVER_ensures((B_N(connp) && B_EXPECT(connp)) ==> connp->in_state == htp_connp_REQ_FINALIZE)
__CPROVER_ensures(!(B_N(connp) && B_EXPECT(connp)) ==> B_KEEP(connp, in_state))

/* ---- C06 / C11: the framing decision (not (a), (c), restart) -------------------------------------------------- */
/* success means the decision was taken and the transition ran */
__CPROVER_ensures(__CPROVER_return_value == HTP_OK ==> (B_R(connp) || B_TXS_RAN))
/* 1. answer to HEAD; 1xx / 204 / 304 without T-E and C-L: no body */
__CPROVER_ensures((B_N(connp) && (B_HEAD(connp) || B_NOBODY_ST(connp))) ==> (connp->out_tx->response_transfer_coding == HTP_CODING_NO_BODY && connp->out_state == htp_connp_RES_FINALIZE &&
    B_TXS_RAN && B_KEEP(connp, out_tx->response_progress) && B_KEEP(connp, out_tx->flags) && B_KEEP(connp, out_body_data_left) && B_KEEP(connp, out_content_length)))
/* (allocation failure while copying the content type: error, nothing decided) */
__CPROVER_ensures(B_DUPFAIL(connp) ==> (__CPROVER_return_value == HTP_ERROR && B_TXS_NOT && B_KEEP(connp, out_state) && B_KEEP(connp, out_tx->response_transfer_coding) &&
    B_KEEP(connp, out_tx->flags) && B_KEEP(connp, out_tx->response_progress) && connp->out_tx->response_content_type == NULL))
__CPROVER_ensures((B_FRAMED(connp) && B_CT) ==> (connp->out_tx->response_content_type != NULL && bstr_len(connp->out_tx->response_content_type) <= bstr_len(RBD_HDR(g_rbd_hdr_ct)->value)))
/* 2. T-E with "chunked": chunked framing; a C-L next to it is a smuggling attempt */
__CPROVER_ensures(B_CHUNKED(connp) ==> (connp->out_tx->response_transfer_coding == HTP_CODING_CHUNKED && connp->out_state == htp_connp_RES_BODY_CHUNKED_LENGTH &&
    connp->out_tx->response_progress == HTP_RESPONSE_BODY && B_TXS_RAN &&
    connp->out_tx->flags == (O(connp->out_tx->flags) | (B_CL ? HTP_REQUEST_SMUGGLING : 0)) && B_KEEP(connp, out_body_data_left) && B_KEEP(connp, out_content_length)))
/* 3. else C-L: identity framing by length; a repeated C-L is a smuggling attempt; an unparseable one is an error */
__CPROVER_ensures(B_BYCL(connp) ==> (connp->out_tx->response_transfer_coding == HTP_CODING_IDENTITY && connp->out_tx->response_content_length == g_rbd_clv &&
    connp->out_tx->flags == (O(connp->out_tx->flags) | (B_CL_REP ? HTP_REQUEST_SMUGGLING : 0))))
__CPROVER_ensures((B_BYCL(connp) && g_rbd_clv < 0) ==> (__CPROVER_return_value == HTP_ERROR && B_TXS_NOT && B_KEEP(connp, out_state) && B_KEEP(connp, out_tx->response_progress) &&
    B_KEEP(connp, out_body_data_left) && B_KEEP(connp, out_content_length)))
__CPROVER_ensures((B_BYCL(connp) && g_rbd_clv >= 0) ==> (connp->out_content_length == g_rbd_clv && connp->out_body_data_left == g_rbd_clv && B_TXS_RAN))
__CPROVER_ensures((B_BYCL(connp) && g_rbd_clv > 0) ==> (connp->out_state == htp_connp_RES_BODY_IDENTITY_CL_KNOWN && connp->out_tx->response_progress == HTP_RESPONSE_BODY))
__CPROVER_ensures((B_BYCL(connp) && g_rbd_clv == 0) ==> (connp->out_state == htp_connp_RES_FINALIZE && B_KEEP(connp, out_tx->response_progress)))
/* 4. else: multipart/byteranges is not supported (error); otherwise the body runs until the connection closes */
__CPROVER_ensures((B_BYCLOSE(connp) && B_MULTIPART) ==> (__CPROVER_return_value == HTP_ERROR && B_TXS_NOT && B_KEEP(connp, out_state) && B_KEEP(connp, out_tx->response_transfer_coding) &&
    B_KEEP(connp, out_tx->response_progress) && B_KEEP(connp, out_tx->flags) && B_KEEP(connp, out_body_data_left)))
__CPROVER_ensures((B_BYCLOSE(connp) && !B_MULTIPART) ==> (connp->out_tx->response_transfer_coding == HTP_CODING_IDENTITY && connp->out_state == htp_connp_RES_BODY_IDENTITY_STREAM_CLOSE &&
    connp->out_body_data_left == -1 && connp->out_tx->response_progress == HTP_RESPONSE_BODY && B_TXS_RAN && B_KEEP(connp, out_tx->flags) && B_KEEP(connp, out_content_length)))
/* 5. indicators only grow, and only the smuggling indicator is ever raised here */
__CPROVER_ensures((connp->out_tx->flags & O(connp->out_tx->flags)) == O(connp->out_tx->flags))
__CPROVER_ensures((connp->out_tx->flags | HTP_REQUEST_SMUGGLING) == (O(connp->out_tx->flags) | HTP_REQUEST_SMUGGLING))
/* 6. what RES_BODY_IDENTITY_CL_KNOWN requires on entry (its contract in sm.h): bytes owed == Content-Length > 0; the chunked and close-delimited states likewise come with their coding */
__CPROVER_ensures(connp->out_state == htp_connp_RES_BODY_IDENTITY_CL_KNOWN ==> (connp->out_body_data_left > 0 && connp->out_body_data_left == connp->out_content_length &&
    connp->out_content_length == connp->out_tx->response_content_length && connp->out_tx->response_transfer_coding == HTP_CODING_IDENTITY &&
    connp->out_status != HTP_STREAM_STOP && connp->out_status != HTP_STREAM_ERROR))
__CPROVER_ensures(connp->out_state == htp_connp_RES_BODY_CHUNKED_LENGTH ==> connp->out_tx->response_transfer_coding == HTP_CODING_CHUNKED)
__CPROVER_ensures(connp->out_state == htp_connp_RES_BODY_IDENTITY_STREAM_CLOSE ==> (connp->out_tx->response_transfer_coding == HTP_CODING_IDENTITY && connp->out_body_data_left == -1))
/* 7. the state set of this function */
__CPROVER_ensures(connp->out_state == O(connp->out_state) || connp->out_state == htp_connp_RES_FINALIZE || connp->out_state == htp_connp_RES_LINE ||
    connp->out_state == htp_connp_RES_BODY_CHUNKED_LENGTH || connp->out_state == htp_connp_RES_BODY_IDENTITY_CL_KNOWN || connp->out_state == htp_connp_RES_BODY_IDENTITY_STREAM_CLOSE)
__CPROVER_ensures(__CPROVER_return_value == HTP_OK || __CPROVER_return_value == HTP_STOP || __CPROVER_return_value == HTP_ERROR)

/* ---- C09: the shared state contract ------------------------------------------------------------------------- */
__CPROVER_ensures(RS_COMMON_POST(connp))
;
#endif
