/* ghosts of the htp_normalize_parsed_uri unit (file name ghost_c19.h only because c13's fragment belongs to builder-c13) */
#ifndef GHOST_NORM_H
#define GHOST_NORM_H
#define GHOSTS_C19(X) X(int64_t, g_np_port) X(int, g_np_seq) X(int, g_np_s_decode) X(int, g_np_s_utf8c) X(int, g_np_s_utf8v) X(int, g_np_s_norm) X(const void *, g_np_path)
#endif
