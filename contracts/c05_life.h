/* C05 - transaction lifecycle: contracts of the htp_tx_state_* transitions, htp_tx_finalize, htp_tx_is_complete,
 * htp_tx_destroy (all ENFORCED on the real code) and of the event-logging stubs they are verified against.
 *
 * Events.  Every delivery to user code is an EVENT: a call of htp_hook_run_all (one of ten hook slots of the
 * configuration), of a body sink (end-of-body marker), of receiver finalisation (raw header/trailer data callbacks),
 * of htp_tx_process_request_headers (which ends with the REQUEST_HEADERS hook) and the destruction of the transaction.
 * The stubs number the events of one call 1,2,3.. in g_seq and record per kind a history counter g_cnt_<kind> and the
 * sequence number g_seq_<kind> of its last occurrence.  "A before B" is g_seq_A < g_seq_B; "at most once over any call
 * history" is "progress already COMPLETE on entry ==> counter unchanged" + "counter moved ==> progress COMPLETE on exit".
 */
#ifndef C05_LIFE_H
#define C05_LIFE_H
#include "sm.h"

/* ---- known finding F4 (notes/c05.md): TRANSACTION_COMPLETE delivered twice ---------------------------------------------
 * htp_tx_state_response_complete_ex returns HTP_DATA_OTHER (htp_transaction.c:1239-1249) with response_progress ==
 * COMPLETE while the transaction is still attached as connp->out_tx.  The request side then completes the same
 * transaction (htp_tx_finalize #1 -> TRANSACTION_COMPLETE), and when the response side is resumed RES_FINALIZE calls
 * htp_tx_state_response_complete_ex again -> htp_tx_finalize #2 -> TRANSACTION_COMPLETE a second time.
 * The obligation that fails on exactly that path is C05_INV_RES in the post-condition of
 * htp_tx_state_response_complete_ex for the return value HTP_DATA_OTHER.  With the macro below defined (default) that
 * clause is restricted to the return value HTP_OK and the at-most-once claim for TRANSACTION_COMPLETE is NOT made for call
 * histories that pass through the early DATA_OTHER return.  Build with -DC05_STRICT to get the failing obligation. */
#ifndef C05_STRICT
#define KNOWN_F_C05_TXCOMPLETE_TWICE 1
#endif

#define R __CPROVER_return_value
#define RC3(r) ((r) == HTP_OK || (r) == HTP_STOP || (r) == HTP_ERROR)

/* ---- hook identities: ten distinct non-NULL addresses, never dereferenced (htp_hook_run_all is replaced) ---------------- */
static char c05_hk_arena[16];
#define HKP(n) ((htp_hook_t *) &c05_hk_arena[n])
#define HK_req_start HKP(1)
#define HK_req_uri_norm HKP(2)
#define HK_req_line HKP(3)
#define HK_req_trailer HKP(4)
#define HK_req_complete HKP(5)
#define HK_res_start HKP(6)
#define HK_res_line HKP(7)
#define HK_res_headers HKP(8)
#define HK_res_complete HKP(9)
#define HK_tx_complete HKP(10)
enum { EVN_none = 0, EVN_req_start, EVN_req_uri_norm, EVN_req_line, EVN_req_trailer, EVN_req_complete, EVN_res_start, EVN_res_line,
       EVN_res_headers, EVN_res_complete, EVN_tx_complete, EVN_sink, EVN_fclr, EVN_prh, EVN_destroy };

#define C05_HOOKS(H) H(req_start) H(req_uri_norm) H(req_line) H(req_trailer) H(req_complete) H(res_start) H(res_line) H(res_headers) H(res_complete) H(tx_complete)
#define C05_EVENTS(H) C05_HOOKS(H) H(sink) H(fclr) H(prh) H(destroy)
#define C05_EVENTS5(H, a, b, c, d, e) H(req_start, a, b, c, d, e) H(req_uri_norm, a, b, c, d, e) H(req_line, a, b, c, d, e) H(req_trailer, a, b, c, d, e) \
    H(req_complete, a, b, c, d, e) H(res_start, a, b, c, d, e) H(res_line, a, b, c, d, e) H(res_headers, a, b, c, d, e) H(res_complete, a, b, c, d, e) \
    H(tx_complete, a, b, c, d, e) H(sink, a, b, c, d, e) H(fclr, a, b, c, d, e) H(prh, a, b, c, d, e) H(destroy, a, b, c, d, e)

#define EV_ASG(h) g_cnt_##h, g_seq_##h,
#define EV_BND(h) && g_cnt_##h < 4
#define EV_BND8(h) && g_cnt_##h < 8
#define EV_HIT(h) (g_cnt_##h == O(g_cnt_##h) + 1 && g_seq_##h == g_seq)
#define EV_KEEP(h) (g_cnt_##h == O(g_cnt_##h) && g_seq_##h == O(g_seq_##h))
/* in the post-condition of an enforced function: event kind h occurred exactly once / not at all during this call */
#define EV_RAN(h) (g_cnt_##h == O(g_cnt_##h) + 1 && g_seq_##h >= 1 && g_seq_##h <= g_seq)
#define EV_NOT(h) (g_cnt_##h == O(g_cnt_##h))
#define EV_SAME_X(h, a, b, c, d, e) && (EVN_##h == (a) || EVN_##h == (b) || EVN_##h == (c) || EVN_##h == (d) || EVN_##h == (e) || EV_NOT(h))
/* no event of any kind other than the five named ones (use `none` as filler) */
#define EV_ONLY(a, b, c, d, e) (1 C05_EVENTS5(EV_SAME_X, EVN_##a, EVN_##b, EVN_##c, EVN_##d, EVN_##e))
#define EV_NONE (g_seq == 0 && EV_ONLY(none, none, none, none, none))

#define C05_GHOST_ASSIGNS C05_EVENTS(EV_ASG) g_seq, g_hook_tx_last, g_hook_tx_other, g_hook_failed, g_hook_rc_fail, g_hook_after_fail, g_hook_rc_last, \
    g_destroy_tx, g_prh_rc, g_fclr_rc, BODY_LOG_ASSIGNS

/* ---- the stubs ------------------------------------------------------------------------------------------------------------ */
#define HK_IS(h) || hook == HK_##h
#define HK_UPD(h) && (hook == HK_##h ? EV_HIT(h) : EV_KEEP(h))
#define HK_ASG(h) g_cnt_##h, g_seq_##h,
/* callbacks: outside the proof.  Any of OK / STOP / ERROR (DECLINED is folded into OK by the real runner); they do not write
 * parser or transaction state (frame = ghosts only). */
htp_status_t contract_c05_hook_run_all(htp_hook_t *hook, void *user_data)
__CPROVER_requires(g_seq < 16 C05_HOOKS(EV_BND8))
__CPROVER_requires(hook != NULL && (0 C05_HOOKS(HK_IS)))
__CPROVER_assigns(C05_HOOKS(HK_ASG) g_seq, g_hook_tx_last, g_hook_tx_other, g_hook_failed, g_hook_rc_fail, g_hook_after_fail, g_hook_rc_last)
__CPROVER_ensures(g_seq == O(g_seq) + 1 C05_HOOKS(HK_UPD))
__CPROVER_ensures(g_hook_tx_last == user_data && g_hook_tx_other == (O(g_hook_tx_other) || user_data != g_tx_self))
__CPROVER_ensures(RC3(R) && g_hook_rc_last == R)
/* first failure is remembered; a callback that runs after a failed one raises the sticky flag g_hook_after_fail */
__CPROVER_ensures(g_hook_failed == (O(g_hook_failed) || R != HTP_OK) && g_hook_rc_fail == (O(g_hook_failed) ? O(g_hook_rc_fail) : (int) R) &&
                  g_hook_after_fail == (O(g_hook_after_fail) || O(g_hook_failed)))
;
#define C05_SINK_ASSIGNS BODY_LOG_ASSIGNS, g_seq, g_cnt_sink, g_seq_sink, g_hook_after_fail, g_hook_tx_other
#define C05_SINK_POST(tx, data, len) (BODY_LOG_POST(data, len) && g_seq == O(g_seq) + 1 && EV_HIT(sink) && \
    g_hook_after_fail == (O(g_hook_after_fail) || g_hook_failed) && g_hook_tx_other == (O(g_hook_tx_other) || (const void *)(tx) != g_tx_self))
htp_status_t contract_c05_req_sink(htp_tx_t *tx, const void *data, size_t len)
__CPROVER_requires(tx != NULL && g_body_n < 8 && g_seq < 16 && g_cnt_sink < 8)
__CPROVER_assigns(C05_SINK_ASSIGNS, tx->request_entity_len)
__CPROVER_ensures(C05_SINK_POST(tx, data, len))
;
htp_status_t contract_c05_res_sink(htp_tx_t *tx, const void *data, size_t len)
__CPROVER_requires(tx != NULL && g_body_n < 8 && g_seq < 16 && g_cnt_sink < 8)
__CPROVER_assigns(C05_SINK_ASSIGNS, tx->response_entity_len, tx->response_message_len)
__CPROVER_ensures(C05_SINK_POST(tx, data, len))
;
/* receiver finalisation: hands the outstanding raw header/trailer bytes to the data receiver callbacks and removes the receiver */
#define C05_FCLR_POST (g_seq == O(g_seq) + 1 && EV_HIT(fclr) && g_fclr_rc == R && RC3(R) && g_hook_after_fail == (O(g_hook_after_fail) || g_hook_failed))
htp_status_t contract_c05_req_fclr(htp_connp_t *connp)
__CPROVER_requires(__CPROVER_rw_ok(connp, sizeof(*connp)) && g_seq < 16 && g_cnt_fclr < 8)
__CPROVER_assigns(connp->in_data_receiver_hook, connp->in_current_receiver_offset, g_seq, g_cnt_fclr, g_seq_fclr, g_fclr_rc, g_hook_after_fail)
__CPROVER_ensures(C05_FCLR_POST && connp->in_data_receiver_hook == NULL)
;
htp_status_t contract_c05_res_fclr(htp_connp_t *connp)
__CPROVER_requires(__CPROVER_rw_ok(connp, sizeof(*connp)) && g_seq < 16 && g_cnt_fclr < 8)
__CPROVER_assigns(connp->out_data_receiver_hook, connp->out_current_receiver_offset, g_seq, g_cnt_fclr, g_seq_fclr, g_fclr_rc, g_hook_after_fail)
__CPROVER_ensures(C05_FCLR_POST && connp->out_data_receiver_hook == NULL)
;
/* header post-processing, ends with the REQUEST_HEADERS hook (htp_transaction.c:585).  Frame-only: no assignment to either
 * progress indicator or to in_tx / out_tx occurs in htp_transaction.c:361-590. */
htp_status_t contract_c05_prh(htp_tx_t *tx)
__CPROVER_requires(tx != NULL && g_seq < 16 && g_cnt_prh < 8)
__CPROVER_assigns(tx->flags, tx->request_transfer_coding, tx->request_content_length, g_seq, g_cnt_prh, g_seq_prh, g_prh_rc, g_hook_after_fail)
__CPROVER_ensures(g_seq == O(g_seq) + 1 && EV_HIT(prh) && g_prh_rc == R && RC3(R) && g_hook_after_fail == (O(g_hook_after_fail) || g_hook_failed))
;
/* destruction: the transaction is gone and (htp_connp_tx_remove) no longer attached to either direction */
void contract_c05_destroy_incomplete(htp_tx_t *tx)
__CPROVER_requires(tx != NULL && __CPROVER_rw_ok(tx, sizeof(*tx)) && __CPROVER_rw_ok(tx->connp, sizeof(htp_connp_t)) && g_seq < 16 && g_cnt_destroy < 8)
__CPROVER_assigns(__CPROVER_object_whole(tx), tx->connp->in_tx, tx->connp->out_tx, g_seq, g_cnt_destroy, g_seq_destroy, g_destroy_tx)
__CPROVER_frees(tx)
/* (the frees clause deallocates tx nondeterministically: both outcomes are explored; __CPROVER_was_freed cannot be assumed here with dfcc 6.11) */
__CPROVER_ensures(g_seq == O(g_seq) + 1 && EV_HIT(destroy) && g_destroy_tx == (const void *) tx)
__CPROVER_ensures(O(tx->connp)->in_tx == (O(tx->connp->in_tx) == tx ? NULL : O(tx->connp->in_tx)))
__CPROVER_ensures(O(tx->connp)->out_tx == (O(tx->connp->out_tx) == tx ? NULL : O(tx->connp->out_tx)))
;
/* URI helpers of htp_tx_state_request_line: frame-only */
int contract_c05_parse_uri_hostport(htp_connp_t *connp, bstr *hostport, htp_uri_t *uri)
__CPROVER_requires(__CPROVER_rw_ok(connp, sizeof(*connp)) && __CPROVER_rw_ok(uri, sizeof(*uri)) && __CPROVER_rw_ok(connp->in_tx, sizeof(htp_tx_t)))
__CPROVER_assigns(__CPROVER_object_whole(uri), connp->in_tx->flags) __CPROVER_ensures(R == HTP_OK || R == HTP_ERROR);
int contract_c05_parse_uri(bstr *input, htp_uri_t **uri)
__CPROVER_requires(__CPROVER_rw_ok(uri, sizeof(*uri)) && __CPROVER_rw_ok(*uri, sizeof(htp_uri_t)))
__CPROVER_assigns(__CPROVER_object_whole(*uri)) __CPROVER_ensures(R == HTP_OK || R == HTP_ERROR);
int contract_c05_normalize_parsed_uri(htp_tx_t *tx, htp_uri_t *parsed_uri_incomplete, htp_uri_t *parsed_uri)
__CPROVER_requires(tx != NULL && __CPROVER_rw_ok(parsed_uri, sizeof(*parsed_uri)))
__CPROVER_assigns(__CPROVER_object_whole(parsed_uri), tx->flags)
__CPROVER_ensures((R == HTP_OK || R == HTP_ERROR) && (parsed_uri->hostname == NULL || __CPROVER_is_fresh(parsed_uri->hostname, sizeof(bstr))));
int contract_c05_validate_hostname(bstr *hostname)
__CPROVER_requires(hostname != NULL) __CPROVER_assigns() __CPROVER_ensures(R == 0 || R == 1);

/* ---- preconditions shared by the enforced transitions ----------------------------------------------------------------------- */
#define C05_CFG(cfg) (__CPROVER_is_fresh((cfg), sizeof(htp_cfg_t)) && \
    (cfg)->hook_request_start == HK_req_start && (cfg)->hook_request_uri_normalize == HK_req_uri_norm && (cfg)->hook_request_line == HK_req_line && \
    (cfg)->hook_request_trailer == HK_req_trailer && (cfg)->hook_request_complete == HK_req_complete && (cfg)->hook_response_start == HK_res_start && \
    (cfg)->hook_response_line == HK_res_line && (cfg)->hook_response_headers == HK_res_headers && (cfg)->hook_response_complete == HK_res_complete && \
    (cfg)->hook_transaction_complete == HK_tx_complete)
#define C05_GHOSTS_INIT(tx) (g_seq == 0 && g_tx_self == (const void *)(tx) && g_hook_tx_other == 0 && g_hook_failed == 0 && g_hook_after_fail == 0 && g_body_n == 0 C05_EVENTS(EV_BND))
/* a transaction with its parser and configuration; progress indicators within their enumerations */
#define C05_TX(tx) (__CPROVER_is_fresh((tx), sizeof(htp_tx_t)) && __CPROVER_is_fresh((tx)->connp, sizeof(htp_connp_t)) && C05_CFG((tx)->connp->cfg) && \
    (tx)->request_progress <= HTP_REQUEST_COMPLETE && (tx)->response_progress <= HTP_RESPONSE_COMPLETE && C05_GHOSTS_INIT(tx))
/* which direction currently works on tx (ghost booleans; both values are explored) */
#define C05_IN_ATTACH(tx) (g_c05_in_same ? __CPROVER_pointer_equals((tx)->connp->in_tx, (tx)) : (tx)->connp->in_tx != (tx))
#define C05_OUT_ATTACH(tx) (g_c05_out_same ? __CPROVER_pointer_equals((tx)->connp->out_tx, (tx)) : (tx)->connp->out_tx != (tx))
/* no PUT file pending: with a put_file the cleanup path (bstr_free + free) sends CBMC into an encoding blow-up (> 240 s); teardown is C18 */
#define C05_PUT(c) ((c)->put_file == NULL)
/* common post: every event of this call names this transaction; nothing is delivered after a callback failed; a failed
 * callback's code is what the function returns */
#define C05_POST_COMMON (g_hook_tx_other == 0 && g_hook_after_fail == 0 && (g_hook_failed ==> R == g_hook_rc_fail))
#define C05_MONO(tx) ((tx)->request_progress >= O((tx)->request_progress) && (tx)->response_progress >= O((tx)->response_progress))
#define C05_NOT_DESTROYED EV_NOT(destroy)

/* ---- the invariant that makes TRANSACTION_COMPLETE at-most-once inductive ------------------------------------------------------
 * D(tx) = "TRANSACTION_COMPLETE has been delivered for tx".  htp_tx_finalize has no guard of its own; it is reached only from
 * htp_tx_state_request_complete (called with tx == connp->in_tx at all 6 call sites) and htp_tx_state_response_complete_ex
 * (tx == connp->out_tx at all 4 call sites).  At-most-once follows from
 *     K:  D(tx) ==> connp->in_tx != tx && connp->out_tx != tx           (a delivered transaction is attached to neither side,
 *                                                                         which is also "no callback after transaction-complete")
 * K is preserved by the two completion functions iff a side that is COMPLETE is detached:
 *     INV_REQ: request_progress  == COMPLETE ==> connp->in_tx  != tx
 *     INV_RES: response_progress == COMPLETE ==> connp->out_tx != tx
 * htp_tx_state_request_complete(tx)  [tx == in_tx, so !D by K]: delivers only if the response is COMPLETE, then by INV_RES
 *     out_tx != tx, and it sets in_tx = NULL: K holds again.  Symmetrically for the response side with INV_REQ.
 * Both functions must re-establish INV_REQ / INV_RES on every return after which the parser keeps running (HTP_OK and
 * HTP_DATA_OTHER; STOP / ERROR make the direction sticky-dead, C09). */
#define C05_INV_REQ(c, tx) (!((tx)->request_progress == HTP_REQUEST_COMPLETE && (c)->in_tx == (tx)))
#define C05_INV_RES(c, tx) (!((tx)->response_progress == HTP_RESPONSE_COMPLETE && (c)->out_tx == (tx)))

/* ==== request side ============================================================================================================= */
/* REQ_IDLE calls this right after creating the transaction (progress NOT_STARTED, tx == in_tx) */
htp_status_t contract_htp_tx_state_request_start(htp_tx_t *tx)
__CPROVER_requires(C05_TX(tx) && __CPROVER_pointer_equals(tx->connp->in_tx, tx) && tx->request_progress <= HTP_REQUEST_LINE)
__CPROVER_assigns(C05_GHOST_ASSIGNS, tx->connp->in_state, tx->request_progress)
__CPROVER_ensures(RC3(R) && C05_POST_COMMON && C05_MONO(tx))
/* exactly one event: the REQUEST_START hook */
__CPROVER_ensures(g_seq == 1 && EV_RAN(req_start) && EV_ONLY(req_start, none, none, none, none) && g_hook_tx_last == (const void *) tx)
__CPROVER_ensures(R == HTP_OK ==> (tx->request_progress == HTP_REQUEST_LINE && tx->connp->in_state == htp_connp_REQ_LINE))
__CPROVER_ensures(R != HTP_OK ==> (tx->request_progress == O(tx->request_progress) && tx->connp->in_state == O(tx->connp->in_state)))
;
#define C05_URI(tx) (__CPROVER_is_fresh((tx)->parsed_uri_raw, sizeof(htp_uri_t)) && \
    ((tx)->parsed_uri == NULL || (__CPROVER_is_fresh((tx)->parsed_uri, sizeof(htp_uri_t)) && \
        ((tx)->parsed_uri->hostname == NULL || __CPROVER_is_fresh((tx)->parsed_uri->hostname, sizeof(bstr))))))
htp_status_t contract_htp_tx_state_request_line(htp_tx_t *tx)
__CPROVER_requires(C05_TX(tx) && __CPROVER_pointer_equals(tx->connp->in_tx, tx) && C05_URI(tx))
__CPROVER_assigns(C05_GHOST_ASSIGNS, tx->connp->in_state, tx->parsed_uri_raw, tx->parsed_uri, tx->flags, __CPROVER_object_whole(tx->parsed_uri_raw); tx->parsed_uri != NULL: __CPROVER_object_whole(tx->parsed_uri))
__CPROVER_ensures(RC3(R) && C05_POST_COMMON && C05_MONO(tx) && tx->request_progress == O(tx->request_progress))
/* at most the two hooks URI_NORMALIZE then REQUEST_LINE, each at most once, in that order; LINE only after NORMALIZE succeeded */
__CPROVER_ensures(EV_ONLY(req_uri_norm, req_line, none, none, none) && g_seq <= 2)
__CPROVER_ensures((EV_NOT(req_uri_norm) && g_seq == 0 && R == HTP_ERROR) || (EV_RAN(req_uri_norm) && g_seq_req_uri_norm == 1))
__CPROVER_ensures(EV_NOT(req_line) || (EV_RAN(req_line) && EV_RAN(req_uri_norm) && g_seq_req_uri_norm < g_seq_req_line && g_seq_req_line == 2))
__CPROVER_ensures(R == HTP_OK ==> (EV_RAN(req_uri_norm) && EV_RAN(req_line) && !g_hook_failed && tx->connp->in_state == htp_connp_REQ_PROTOCOL))
__CPROVER_ensures(R != HTP_OK ==> tx->connp->in_state == O(tx->connp->in_state))
;
htp_status_t contract_htp_tx_state_request_headers(htp_tx_t *tx)
__CPROVER_requires(C05_TX(tx) && __CPROVER_pointer_equals(tx->connp->in_tx, tx))
__CPROVER_assigns(C05_GHOST_ASSIGNS, tx->connp->in_state, tx->flags, tx->request_transfer_coding, tx->request_content_length, tx->connp->in_data_receiver_hook, tx->connp->in_current_receiver_offset)
__CPROVER_ensures(RC3(R) && C05_POST_COMMON && C05_MONO(tx) && tx->request_progress == O(tx->request_progress))
/* trailers (progress beyond HEADERS): REQUEST_TRAILER hook, then the raw trailer data is flushed; finalisation comes next */
__CPROVER_ensures(O(tx->request_progress) > HTP_REQUEST_HEADERS ==> (EV_RAN(req_trailer) && g_seq_req_trailer == 1 && EV_ONLY(req_trailer, fclr, none, none, none) &&
    (g_hook_failed ? (EV_NOT(fclr) && g_seq == 1) : (EV_RAN(fclr) && g_seq_fclr == 2 && g_seq == 2 && R == g_fclr_rc)) &&
    (R == HTP_OK ==> tx->connp->in_state == htp_connp_REQ_FINALIZE)))
/* headers (LINE or HEADERS): header post-processing, whose last act is the REQUEST_HEADERS hook; never the trailer hook */
__CPROVER_ensures((O(tx->request_progress) >= HTP_REQUEST_LINE && O(tx->request_progress) <= HTP_REQUEST_HEADERS) ==> (EV_RAN(prh) && g_seq == 1 &&
    EV_ONLY(prh, none, none, none, none) && R == g_prh_rc && (R == HTP_OK ==> tx->connp->in_state == htp_connp_REQ_CONNECT_CHECK)))
/* before the request line: refused, nothing delivered */
__CPROVER_ensures(O(tx->request_progress) < HTP_REQUEST_LINE ==> (R == HTP_ERROR && EV_NONE))
__CPROVER_ensures(R != HTP_OK ==> tx->connp->in_state == O(tx->connp->in_state))
;
#define C05_HAD_BODY(tx) (O((tx)->request_transfer_coding) == HTP_CODING_IDENTITY || O((tx)->request_transfer_coding) == HTP_CODING_CHUNKED)
#define C05_REQ_COMPLETE_FRAME(tx) C05_GHOST_ASSIGNS, (tx)->request_progress, (tx)->request_entity_len, (tx)->connp->in_data_receiver_hook, \
    (tx)->connp->in_current_receiver_offset, (tx)->connp->put_file
/* what one run of the completion sequence delivers: [end-of-body marker] -> REQUEST_COMPLETE -> receiver flush */
#define C05_PARTIAL_EVENTS(tx) ( \
    /* a request with a body: the (NULL,0) end marker goes to the body sink first; refused => returned, nothing else happens */ \
    (C05_HAD_BODY(tx) ? (EV_RAN(sink) && g_seq_sink == 1 && g_body_ptr == NULL && g_body_len == 0) : EV_NOT(sink)) && \
    ((C05_HAD_BODY(tx) && g_body_rc != HTP_OK) \
        ? (R == g_body_rc && EV_NOT(req_complete) && EV_NOT(fclr) && g_seq == 1) \
        : (EV_RAN(req_complete) && g_seq_req_complete == (C05_HAD_BODY(tx) ? 2 : 1) && \
           /* REQUEST_COMPLETE refused: returned at once; else the receiver flush follows immediately, its refusal is returned at once */ \
           ((EV_NOT(fclr) && g_hook_failed && R == g_hook_rc_fail && g_seq == g_seq_req_complete) || \
            (EV_RAN(fclr) && g_seq_fclr == g_seq_req_complete + 1 && (g_fclr_rc != HTP_OK ==> (R == g_fclr_rc && g_seq == g_seq_fclr)))))))
/* the parser reaches this only through htp_tx_state_request_complete, under its guard request_progress != COMPLETE */
htp_status_t contract_htp_tx_state_request_complete_partial(htp_tx_t *tx)
__CPROVER_requires(C05_TX(tx) && C05_IN_ATTACH(tx) && C05_PUT(tx->connp) && tx->request_progress != HTP_REQUEST_COMPLETE)
__CPROVER_assigns(C05_REQ_COMPLETE_FRAME(tx))
__CPROVER_ensures(RC3(R) && g_hook_tx_other == 0 && g_hook_after_fail == 0 && C05_MONO(tx))
__CPROVER_ensures(EV_ONLY(sink, req_complete, fclr, none, none) && C05_PARTIAL_EVENTS(tx))
__CPROVER_ensures(EV_NOT(req_complete) ==> tx->request_progress == O(tx->request_progress))
__CPROVER_ensures(R == HTP_OK ==> (tx->connp->put_file == NULL && tx->request_progress == HTP_REQUEST_COMPLETE && EV_RAN(req_complete) && EV_RAN(fclr) && R == g_fclr_rc))
/* REQUEST_COMPLETE delivered ==> progress is COMPLETE afterwards (so the caller's guard blocks a second delivery) */
__CPROVER_ensures(EV_NOT(req_complete) || tx->request_progress == HTP_REQUEST_COMPLETE)
;
/* both completion functions and finalisation: tx may be destroyed, so its fields are only read under C05_NOT_DESTROYED */
#define C05_FINALIZE_POST(tx, REQ_DONE, RES_DONE, C) ( \
    /* TRANSACTION_COMPLETE is delivered only when both sides are complete, at most once per call, for this tx */ \
    (EV_NOT(tx_complete) || EV_RAN(tx_complete)) && (EV_RAN(tx_complete) ==> ((REQ_DONE) && (RES_DONE))) && \
    /* destruction only after a successful TRANSACTION_COMPLETE and only with tx_auto_destroy */ \
    (EV_NOT(destroy) || (EV_RAN(destroy) && EV_RAN(tx_complete) && g_seq_tx_complete < g_seq_destroy && g_seq_destroy == g_seq && \
        g_hook_rc_last == HTP_OK && (C)->cfg->tx_auto_destroy != 0 && g_destroy_tx == (const void *)(tx))) && \
    ((EV_RAN(tx_complete) && g_hook_rc_last == HTP_OK && (C)->cfg->tx_auto_destroy != 0) ==> EV_RAN(destroy)))

htp_status_t contract_htp_tx_state_request_complete(htp_tx_t *tx)
__CPROVER_requires(C05_TX(tx) && __CPROVER_pointer_equals(tx->connp->in_tx, tx) && C05_OUT_ATTACH(tx) && C05_PUT(tx->connp))
/* INV_RES on entry (see above).  INV_REQ need not be assumed: the function itself is guarded by request_progress. */
__CPROVER_requires(C05_INV_RES(tx->connp, tx))
__CPROVER_assigns(C05_REQ_COMPLETE_FRAME(tx), __CPROVER_object_whole(tx), tx->connp->in_state, tx->connp->in_tx, tx->connp->out_tx)
__CPROVER_frees(tx)
__CPROVER_ensures(RC3(R) && g_hook_tx_other == 0 && EV_ONLY(sink, req_complete, fclr, tx_complete, destroy))
/* 1. at most once over any call history: already COMPLETE on entry => neither the end marker nor REQUEST_COMPLETE is delivered again */
__CPROVER_ensures(O(tx->request_progress) == HTP_REQUEST_COMPLETE ==> (EV_NOT(req_complete) && EV_NOT(sink) && EV_NOT(fclr) && R == HTP_OK))
/* 2. not yet COMPLETE: [end marker] -> REQUEST_COMPLETE -> receiver flush, as in the partial function */
__CPROVER_ensures(O(tx->request_progress) != HTP_REQUEST_COMPLETE ==> C05_PARTIAL_EVENTS(tx))
__CPROVER_ensures((EV_RAN(req_complete) && C05_NOT_DESTROYED) ==> tx->request_progress == HTP_REQUEST_COMPLETE)
/* 3. a refusal anywhere in the request-complete sequence is returned at once: transaction stays attached, not finalised */
__CPROVER_ensures(R != HTP_OK ==> (EV_NOT(tx_complete) && EV_NOT(destroy) && O(tx->connp)->in_tx == tx && O(tx->connp)->in_state == O(tx->connp->in_state) &&
    O(tx->request_progress) != HTP_REQUEST_COMPLETE && C05_MONO(tx)))
/* 4. success: the request side lets go of the transaction - no later request-side callback can name it */
__CPROVER_ensures(R == HTP_OK ==> (O(tx->connp)->in_tx == NULL &&
    O(tx->connp)->in_state == (O(tx->is_protocol_0_9) ? htp_connp_REQ_IGNORE_DATA_AFTER_HTTP_0_9 : htp_connp_REQ_IDLE) &&
    (C05_NOT_DESTROYED ==> (tx->request_progress == HTP_REQUEST_COMPLETE && tx->response_progress == O(tx->response_progress)))))
/* 5. TRANSACTION_COMPLETE: iff (on success) the response side was already complete; after REQUEST_COMPLETE; then optional destruction.
 *    Its result is NOT propagated here (htp_transaction.c:1070 drops the return value of htp_tx_finalize): R stays HTP_OK. */
__CPROVER_ensures(C05_FINALIZE_POST(tx, 1, O(tx->response_progress) == HTP_RESPONSE_COMPLETE, O(tx->connp)))
__CPROVER_ensures((R == HTP_OK && O(tx->response_progress) == HTP_RESPONSE_COMPLETE) ==> EV_RAN(tx_complete))
__CPROVER_ensures((EV_RAN(tx_complete) && EV_RAN(req_complete)) ==> g_seq_req_complete < g_seq_tx_complete)
__CPROVER_ensures(g_hook_after_fail == 0)
/* 6. K re-established: once TRANSACTION_COMPLETE is delivered the transaction is attached to neither direction */
__CPROVER_ensures(EV_RAN(tx_complete) ==> (O(tx->connp)->in_tx != tx && O(tx->connp)->out_tx != tx))
/* 7. INV_REQ re-established on success */
__CPROVER_ensures(R == HTP_OK ==> O(tx->connp)->in_tx != tx)
;

/* ==== finalisation ============================================================================================================== */
int contract_htp_tx_is_complete(htp_tx_t *tx)
__CPROVER_requires(tx == NULL || __CPROVER_is_fresh(tx, sizeof(*tx)))
__CPROVER_assigns()
__CPROVER_ensures(tx == NULL ? R == -1 : R == ((tx->request_progress == HTP_REQUEST_COMPLETE && tx->response_progress == HTP_RESPONSE_COMPLETE) ? 1 : 0))
;
#define C05_BOTH_WERE_DONE(tx) (O((tx)->request_progress) == HTP_REQUEST_COMPLETE && O((tx)->response_progress) == HTP_RESPONSE_COMPLETE)
htp_status_t contract_htp_tx_finalize(htp_tx_t *tx)
__CPROVER_requires(C05_TX(tx) && C05_IN_ATTACH(tx) && C05_OUT_ATTACH(tx))
__CPROVER_assigns(C05_GHOST_ASSIGNS, __CPROVER_object_whole(tx), tx->connp->in_tx, tx->connp->out_tx)
__CPROVER_frees(tx)
__CPROVER_ensures(RC3(R) && C05_POST_COMMON && EV_ONLY(tx_complete, destroy, none, none, none))
/* TRANSACTION_COMPLETE runs iff both sides are complete; it is the first event; its refusal is returned and nothing is destroyed */
__CPROVER_ensures(C05_BOTH_WERE_DONE(tx) ? (EV_RAN(tx_complete) && g_seq_tx_complete == 1 && g_hook_tx_last == (const void *) tx) : (EV_NONE && R == HTP_OK))
__CPROVER_ensures(C05_FINALIZE_POST(tx, O(tx->request_progress) == HTP_REQUEST_COMPLETE, O(tx->response_progress) == HTP_RESPONSE_COMPLETE, O(tx->connp)))
__CPROVER_ensures(C05_NOT_DESTROYED ==> (tx->request_progress == O(tx->request_progress) && tx->response_progress == O(tx->response_progress) &&
    O(tx->connp)->in_tx == O(tx->connp->in_tx) && O(tx->connp)->out_tx == O(tx->connp->out_tx)))
__CPROVER_ensures(EV_RAN(destroy) ==> (R == HTP_OK && O(tx->connp)->in_tx != tx && O(tx->connp)->out_tx != tx))
;
htp_status_t contract_htp_tx_destroy(htp_tx_t *tx)
__CPROVER_requires(C05_TX(tx) && C05_IN_ATTACH(tx) && C05_OUT_ATTACH(tx))
__CPROVER_assigns(C05_GHOST_ASSIGNS, __CPROVER_object_whole(tx), tx->connp->in_tx, tx->connp->out_tx)
__CPROVER_frees(tx)
/* only a complete transaction may be destroyed through the public entry point */
__CPROVER_ensures(C05_BOTH_WERE_DONE(tx) ? (R == HTP_OK && EV_RAN(destroy) && g_seq == 1 && g_destroy_tx == (const void *) tx)
                                       : (R == HTP_ERROR && EV_NONE && tx->request_progress == O(tx->request_progress) && tx->response_progress == O(tx->response_progress)))
__CPROVER_ensures(EV_ONLY(destroy, none, none, none, none))
;

/* ==== response side ============================================================================================================= */
/* RES_IDLE calls this for the transaction it has just picked (response_progress NOT_STARTED) */
htp_status_t contract_htp_tx_state_response_start(htp_tx_t *tx)
__CPROVER_requires(C05_TX(tx) && tx->response_progress <= HTP_RESPONSE_LINE)
__CPROVER_assigns(C05_GHOST_ASSIGNS, tx->connp->out_tx, tx->connp->out_state, tx->connp->out_body_data_left, tx->response_progress, tx->response_transfer_coding, tx->response_content_encoding_processing)
__CPROVER_ensures(RC3(R) && C05_POST_COMMON && C05_MONO(tx))
__CPROVER_ensures(g_seq == 1 && EV_RAN(res_start) && EV_ONLY(res_start, none, none, none, none) && g_hook_tx_last == (const void *) tx)
/* the transaction is attached to the response side before the first response callback */
__CPROVER_ensures(tx->connp->out_tx == tx)
__CPROVER_ensures(R == HTP_OK ==> (tx->is_protocol_0_9 ? (tx->response_progress == HTP_RESPONSE_BODY && tx->connp->out_state == htp_connp_RES_BODY_IDENTITY_STREAM_CLOSE)
                                                      : (tx->response_progress == HTP_RESPONSE_LINE && tx->connp->out_state == htp_connp_RES_LINE)))
__CPROVER_ensures(R != HTP_OK ==> (tx->response_progress == O(tx->response_progress) && tx->connp->out_state == O(tx->connp->out_state)))
;
htp_status_t contract_htp_tx_state_response_line(htp_tx_t *tx)
__CPROVER_requires(C05_TX(tx))
__CPROVER_assigns(C05_GHOST_ASSIGNS, tx->flags, tx->response_status_number)
__CPROVER_ensures(RC3(R) && C05_POST_COMMON && C05_MONO(tx))
__CPROVER_ensures(g_seq == 1 && EV_RAN(res_line) && EV_ONLY(res_line, none, none, none, none) && g_hook_tx_last == (const void *) tx && R == g_hook_rc_last)
;

/* NOT PROVED (unit disabled, see units/c05_life.py): cbmc does not finish within 240 s on this function. */
/* ---- htp_tx_state_response_headers: content-coding set-up around the RESPONSE_HEADERS hook ------------------------------------ */
#define C05_CE_CAP 16
void *contract_c05_table_get_c(const htp_table_t *table, const char *ckey)
__CPROVER_requires(ckey != NULL) __CPROVER_assigns()
__CPROVER_ensures(R == NULL || (__CPROVER_is_fresh(R, sizeof(htp_header_t)) && __CPROVER_is_fresh(((htp_header_t *) R)->value, sizeof(bstr) + C05_CE_CAP) &&
    ((htp_header_t *) R)->value->realptr == NULL && ((htp_header_t *) R)->value->size == C05_CE_CAP && ((htp_header_t *) R)->value->len <= C05_CE_CAP));
int contract_c05_any_cmp_c(const bstr *b, const char *c) __CPROVER_requires(b != NULL && c != NULL) __CPROVER_assigns() __CPROVER_ensures(1);
int contract_c05_any_index_of(const void *data, size_t len, const char *cstr) __CPROVER_requires(cstr != NULL) __CPROVER_assigns() __CPROVER_ensures(1);
int contract_c05_any_cmp_mem(const void *data1, size_t len1, const void *data2, size_t len2) __CPROVER_requires(1) __CPROVER_assigns() __CPROVER_ensures(1);
htp_decompressor_t *contract_c05_decompressor_create(htp_connp_t *connp, enum htp_content_encoding_t format)
__CPROVER_requires(connp != NULL) __CPROVER_assigns()
__CPROVER_ensures(R == NULL || __CPROVER_is_fresh(R, sizeof(htp_decompressor_t)));
/* tokenizer of the multi-valued Content-Encoding: a token is a sub-range of the input */
int contract_c05_get_token(const unsigned char *in, size_t in_len, const char *seps, unsigned char **ret_tok_ptr, size_t *ret_tok_len)
__CPROVER_requires(__CPROVER_w_ok(ret_tok_ptr, sizeof(*ret_tok_ptr)) && __CPROVER_w_ok(ret_tok_len, sizeof(*ret_tok_len)))
__CPROVER_assigns(*ret_tok_ptr, *ret_tok_len)
__CPROVER_ensures((R == 0 || R == 1) && (R == 1 ==> (*ret_tok_len <= in_len && *ret_tok_ptr == (unsigned char *) in)))
;
htp_status_t contract_htp_tx_state_response_headers(htp_tx_t *tx)
__CPROVER_requires(C05_TX(tx))
/* the layer limit bounds the tokenizer loop (library default 2; 0 = unlimited is excluded here) */
__CPROVER_requires(tx->connp->cfg->response_decompression_layer_limit >= 1 && tx->connp->cfg->response_decompression_layer_limit <= 2)
__CPROVER_assigns(C05_GHOST_ASSIGNS, tx->response_content_encoding, tx->response_content_encoding_processing, tx->connp->out_decompressor,
    tx->connp->out_data_receiver_hook, tx->connp->out_current_receiver_offset)
__CPROVER_ensures(RC3(R) && C05_POST_COMMON && C05_MONO(tx) && tx->response_progress == O(tx->response_progress))
/* raw header data is flushed first, then RESPONSE_HEADERS exactly once; a refusal of either is returned at once; nothing else is delivered */
__CPROVER_ensures(EV_ONLY(fclr, res_headers, none, none, none) && EV_RAN(fclr) && g_seq_fclr == 1)
__CPROVER_ensures(g_fclr_rc != HTP_OK ? (R == g_fclr_rc && EV_NOT(res_headers) && g_seq == 1)
                                      : (EV_RAN(res_headers) && g_seq_res_headers == 2 && g_seq == 2 && g_hook_tx_last == (const void *) tx))
;

#define C05_RES_COMPLETE_FRAME(tx) C05_GHOST_ASSIGNS, __CPROVER_object_whole(tx), (tx)->connp->out_tx, (tx)->connp->in_tx, (tx)->connp->out_state, \
    (tx)->connp->out_data_other_at_tx_end, (tx)->connp->out_data_receiver_hook, (tx)->connp->out_current_receiver_offset
#define C05_YIELD1_WAS(c) (O((c)->in_status) == HTP_STREAM_DATA_OTHER && O((c)->in_tx) == O((c)->out_tx))
htp_status_t contract_htp_tx_state_response_complete_ex(htp_tx_t *tx, int hybrid_mode)
__CPROVER_requires(C05_TX(tx) && __CPROVER_pointer_equals(tx->connp->out_tx, tx) && C05_IN_ATTACH(tx))
/* INV_REQ on entry (see above) */
__CPROVER_requires(C05_INV_REQ(tx->connp, tx))
__CPROVER_assigns(C05_RES_COMPLETE_FRAME(tx))
__CPROVER_frees(tx)
__CPROVER_ensures((RC3(R) || R == HTP_DATA_OTHER) && g_hook_tx_other == 0 && g_hook_after_fail == 0 && EV_ONLY(sink, res_complete, fclr, tx_complete, destroy))
/* 1. at most once over any call history: already COMPLETE on entry => neither the end marker nor RESPONSE_COMPLETE again */
__CPROVER_ensures(O(tx->response_progress) == HTP_RESPONSE_COMPLETE ==> (EV_NOT(res_complete) && EV_NOT(sink) && EV_NOT(fclr)))
/* 2. not yet COMPLETE: [end marker unless NO_BODY] -> RESPONSE_COMPLETE -> receiver flush.  The sink's result is dropped
 *    (htp_transaction.c:1213), so RESPONSE_COMPLETE follows even a refused end marker. */
__CPROVER_ensures(O(tx->response_progress) != HTP_RESPONSE_COMPLETE ==> (EV_RAN(res_complete) &&
    (O(tx->response_transfer_coding) != HTP_CODING_NO_BODY ? (EV_RAN(sink) && g_seq_sink == 1 && g_seq_res_complete == 2) : (EV_NOT(sink) && g_seq_res_complete == 1)) &&
    (g_seq_res_complete == g_seq ? (g_hook_failed && R == g_hook_rc_fail && EV_NOT(fclr)) : (EV_RAN(fclr) && g_seq_fclr == g_seq_res_complete + 1))))
__CPROVER_ensures((O(tx->response_progress) != HTP_RESPONSE_COMPLETE && O(tx->response_transfer_coding) != HTP_CODING_NO_BODY) ==> (g_body_ptr == NULL && g_body_len == 0))
__CPROVER_ensures(C05_NOT_DESTROYED ==> (tx->response_progress == HTP_RESPONSE_COMPLETE && tx->request_progress == O(tx->request_progress)))
__CPROVER_ensures((EV_RAN(fclr) && g_fclr_rc != HTP_OK) ==> (R == g_fclr_rc && EV_NOT(tx_complete)))
/* 3. the two yields to the request side (stream parsing only) happen BEFORE finalisation and leave the transaction attached */
__CPROVER_ensures(R == HTP_DATA_OTHER ==> (!hybrid_mode && EV_NOT(tx_complete) && EV_NOT(destroy) && tx->connp->out_tx == tx && tx->connp->out_state == O(tx->connp->out_state) &&
    tx->response_progress == HTP_RESPONSE_COMPLETE && (C05_YIELD1_WAS(tx->connp) || (O(tx->connp->out_data_other_at_tx_end) != 0 && tx->connp->out_data_other_at_tx_end == 0))))
__CPROVER_ensures((!hybrid_mode && !g_hook_failed && (EV_NOT(fclr) || g_fclr_rc == HTP_OK) && (C05_YIELD1_WAS(tx->connp) || O(tx->connp->out_data_other_at_tx_end) != 0)) ==> R == HTP_DATA_OTHER)
/* 4. success: the response side lets go of the transaction */
__CPROVER_ensures(R == HTP_OK ==> (O(tx->connp)->out_tx == NULL && O(tx->connp)->out_state == htp_connp_RES_IDLE))
/* 5. TRANSACTION_COMPLETE: only when both sides are complete, after RESPONSE_COMPLETE, its refusal is returned with the transaction still attached */
__CPROVER_ensures(C05_FINALIZE_POST(tx, O(tx->request_progress) == HTP_REQUEST_COMPLETE, 1, O(tx->connp)))
__CPROVER_ensures((R == HTP_OK && O(tx->request_progress) == HTP_REQUEST_COMPLETE) ==> EV_RAN(tx_complete))
__CPROVER_ensures((EV_RAN(tx_complete) && EV_RAN(res_complete)) ==> g_seq_res_complete < g_seq_tx_complete)
__CPROVER_ensures(g_hook_failed ==> R == g_hook_rc_fail)
/* 6. K re-established */
__CPROVER_ensures((EV_RAN(tx_complete) && R == HTP_OK) ==> (O(tx->connp)->in_tx != tx && O(tx->connp)->out_tx != tx))
/* 7. INV_RES re-established on every return after which the parser keeps running.  FAILS for R == HTP_DATA_OTHER: known finding F4. */
#ifdef KNOWN_F_C05_TXCOMPLETE_TWICE
__CPROVER_ensures(R == HTP_OK ==> O(tx->connp)->out_tx != tx)
#else
__CPROVER_ensures((R == HTP_OK || R == HTP_DATA_OTHER) ==> (C05_NOT_DESTROYED ==> C05_INV_RES(O(tx->connp), tx)))
#endif
;
#endif
