/* Contracts and harness vocabulary for property C14 (multipart).  Included AFTER the real sources.
 *
 * Part 1 (C14_PARSE_UNIT): per-call units on htp_mpartp_parse.  The function has one loop head with several
 *   back edges (goto STATE_SWITCH), so it is checked per call, from a SYMBOLIC well-formed matcher state:
 *   WF(state) && chunk of exactly N bytes  ==>  memory safety, hand-out discipline, byte conservation, WF(state').
 *   Since the start state is arbitrary (within WF), one call covers every call history.
 * (The leaf-helper contracts did not reach a passing state and are not delivered; see notes/c14.md.)
 */
#ifndef C14_MPART_H
#define C14_MPART_H
#include "mpart_ref.h"

#ifdef VNATIVE
#define C14_SAME(p, base, n) ((const unsigned char *)(p) >= (const unsigned char *)(base) && (const unsigned char *)(p) <= (const unsigned char *)(base) + (n))
#define C14_ROK(p, n) 1
#define C14_IS_CR(d) ((d)[0] == '\r')
#else
#define C14_IS_CR(d) 1      /* not the chunk, not a stored piece, readable, one byte: natively the byte is compared too */
#define C14_SAME(p, base, n) __CPROVER_same_object((p), (base))
#define C14_ROK(p, n) __CPROVER_r_ok((p), (n))
#endif

/* ===================================================================================================== */
#ifdef C14_PARSE_UNIT
/* Truncation of the symbolic start state (kind='bounded'):
 *   N     chunk length (exact)                         BL    length of CR LF - - boundary (4 + |boundary|)
 *   PCAP  bytes in front of the candidate in the first stored piece (the parser looks at the last two only)
 * derived: at most PMAX stored pieces (each later piece holds >= 1 matched byte and fewer than BL-2 are matched) */
#define PMAX (BL - 2)
#define PLEN (PCAP + BL - 3)
#define PLMAX (PLEN > N ? PLEN : N)

typedef struct {
    unsigned char chunk[N];
    unsigned char bnd[BL];
    unsigned state, mode, cr;
    size_t bmp, bcp, np;
    size_t pl[PMAX];
    unsigned char pb[PMAX][PLEN];
    unsigned modeseq;
    uint64_t flags;
    int bcount;
} vin_t;

/* Copies of the inputs as plain arrays: the stubs never dereference a pointer (every dereference inside an assertion
 * costs CBMC a fresh failure symbol found by a linear name search, i.e. quadratic symex time). */
static const unsigned char *g14_pdata[PMAX];   /* payload address of the pieces stored at entry */
static size_t g14_plen[PMAX];
static unsigned char g14_c[N];                  /* == the chunk */
static unsigned char g14_b[BL];                 /* == the delimiter string the parser was given */

/* Events: the stubs classify their pointer argument (pointer predicates only) and feed the integer event into the
 * hand-out automaton c14_event, which carries a few scalars and asserts the discipline online. */
#define EV_DATA 0
#define EV_BOUNDARY 1
#define EV_STORE 2
#define SRC_CHUNK 0                             /* source object of a range: the chunk, entry piece i (1+i), anything else */
#define SRC_OTHER 255
static void c14_event(unsigned kind, unsigned src, size_t off, size_t len, int is_line);
#ifdef C14_NO_PIECES
#define NP_MAX 0                                /* the call starts without stored pieces: compile-time fact for symex */
#else
#define NP_MAX PMAX
#endif

/* ---- the set-aside store (parser->boundary_pieces): MODEL of the string builder.  htp_multipart.c is compiled with
 *      bstr_builder_append_mem/_size/_clear and htp_list_array_size/_get renamed to the c14_* functions below
 *      (unit key `pre`).  The model keeps the pieces in order; the first piece stored at entry (the only one the parser
 *      indexes itself, htp_multipart.c:1029/1032) is a heap object of EXACTLY sizeof(bstr)+len bytes. ---- */
static bstr *c14_slot[PMAX + 1];
static size_t c14_nslots;
static bstr_builder_t c14_bb;
static htp_list_t c14_bbl;

static bstr *c14_piece_alloc(const unsigned char *data, size_t len, size_t maxlen, int exact) {
    bstr *b = NULL;
    if (exact) {
        /* enumerate the length so that object size and copy are constant (HOWTO 4: symbolic-size objects + writes) */
        for (size_t k = 0; k <= maxlen; k++) if (len == k) {
            b = malloc(sizeof (bstr) + k);
            if (b != NULL && k > 0) memcpy((unsigned char *) b + sizeof (bstr), data, k);
        }
    } else {
        b = malloc(sizeof (bstr) + maxlen);
        if (b != NULL) for (size_t k = 0; k < maxlen; k++) if (k < len) ((unsigned char *) b + sizeof (bstr))[k] = data[k];
    }
    if (b != NULL) { b->len = len; b->size = len; b->realptr = NULL; }
    return b;
}

/* The piece set aside by THIS call is kept apart (c14_new) and joins the slots after the call: the builder is never
 * read again once the tail of the chunk has been stored (asserted), and c14_nslots stays a constant for symex when the
 * call starts without pieces. */
static bstr *c14_new;
static int g14_app_failed;                      /* the set-aside copy of THIS call failed (allocation failure, C18) */
#define C14_NO_READ_AFTER_STORE() VASSERT(g14_app_n == 0 || g14_app_failed, "the set-aside store is not read again after the tail of the chunk has been stored")
size_t c14_bb_size(const bstr_builder_t *bb) { C14_NO_READ_AFTER_STORE(); return c14_nslots; }
size_t c14_list_size(const htp_list_t *l) { C14_NO_READ_AFTER_STORE(); return c14_nslots; }
void *c14_list_get(const htp_list_t *l, size_t idx) { C14_NO_READ_AFTER_STORE(); return idx < c14_nslots ? c14_slot[idx] : NULL; }
void c14_bb_clear(bstr_builder_t *bb) {
    C14_NO_READ_AFTER_STORE();
#ifdef VNATIVE
    for (size_t i = 0; i < c14_nslots; i++) free(c14_slot[i]);
#endif
    c14_nslots = 0;
}
#define C14_LOG(k, src, o, l, ln) c14_event((k), (src), (o), (l), (ln))
/* which object does d point into, and where (pointer predicates only, no dereference) */
#define C14_CLASSIFY(d, src, off) do { (src) = SRC_OTHER; (off) = 0; \
    if (C14_SAME((d), g14_chunk, N)) { (src) = SRC_CHUNK; (off) = (size_t) ((d) - g14_chunk); } \
    else for (size_t i_ = 0; i_ < NP_MAX; i_++) if (i_ < g14_np0 && C14_SAME((d), g14_pdata[i_], g14_plen[i_])) { (src) = (unsigned char) (1 + i_); (off) = (size_t) ((d) - g14_pdata[i_]); } \
  } while (0)
#define C14_MODE_HAVOC(p) do { (p)->current_part_mode = ((g14_modeseq >> (g14_calls & 31u)) & 1u) ? MODE_DATA : MODE_LINE; g14_calls++; } while (0)

htp_status_t c14_bb_append_mem(bstr_builder_t *bb, const void *data, size_t len) {
    const unsigned char *d = data;
    unsigned char src; size_t off;
    C14_CLASSIFY(d, src, off);
    C14_LOG(EV_STORE, src, off, len, 0);
    g14_app_n++;
    if (bb != &c14_bb || g14_app_n > 1 || len > N) return HTP_ERROR;           /* flagged by the replay */
    bstr *b = c14_piece_alloc(d, len, N, 0);
    /* allocation failure of the set-aside copy (C18): the parser must report it and forget the candidate whose position refers
     * to the lost bytes (fixed in /repo; before the fix boundary_candidate_pos later indexed past a shorter piece, notes/c14.md F3) */
    if (b == NULL) { g14_app_failed = 1; return HTP_ERROR; }
    c14_new = b;
    return HTP_OK;
}

/* ---- the part layer: parser->handle_data / parser->handle_boundary ---- */
static int c14_handle_data(htp_mpartp_t *p, const unsigned char *d, size_t len, int is_line) {
    if (len == 0) return HTP_OK;               /* the real htp_mpartp_handle_data ignores empty ranges */
    unsigned char src; size_t off;
    C14_CLASSIFY(d, src, off);
    if (src == SRC_OTHER) VASSERT(len == 1 && C14_IS_CR(d) && C14_ROK(d, 1), "a range outside the chunk and the stored pieces is the one-byte CR literal");
    C14_LOG(EV_DATA, src, off, len, is_line);
    if (src == SRC_CHUNK && off <= N && len <= N - off) g14_hi = off + len;   /* running end of the chunk bytes handed out */
    C14_MODE_HAVOC(p);
    return HTP_OK;
}

static int c14_handle_boundary(htp_mpartp_t *p) {
    size_t end;
    if (g14_carried && g14_nb == 0) {
        /* the candidate carried over from earlier calls is completed by chunk[0 .. BL-bmp) (decided by ref_candidate) */
        end = BL - g14_bmp0;
    } else {
        /* the whole delimiter lies in this chunk, right behind the bytes handed out so far:
         * line end (CRLF or LF), then "--" boundary (contents checked by the replay) */
        size_t q = g14_hi;
        if (q + 1 < N && g14_c[q] == '\r' && g14_c[q + 1] == '\n') q += 2;
        else if (q < N && g14_c[q] == '\n') q += 1;
        else q = N + 1;                         /* flagged by the replay */
        end = q + (BL - 2);
    }
    C14_LOG(EV_BOUNDARY, SRC_OTHER, 0, end, 0);
    g14_hi = end <= N ? end : N; g14_nb++;
#ifdef KNOWN_F_C14_OVERREAD
    /* F-C14-OVERREAD (C01): a delimiter completed by the LAST byte of the chunk: `goto STATE_SWITCH` enters
     * STATE_BOUNDARY_IS_LAST2 without re-testing pos < len and reads data[len] (htp_multipart.c:1287). */
    VASSUME(end != N);
#endif
    C14_MODE_HAVOC(p);
    return HTP_OK;
}

/* The hand-out automaton.
 *   hi       chunk bytes [0,hi) are accounted for          gap_ok   a delimiter line is being swallowed
 *   pi,po    next stored piece / offset expected            pc       bytes replayed from the stored pieces
 *   crn      releases of the set-aside CR                   started  some chunk byte has been accounted for */
static size_t r14_hi, r14_pi, r14_po, r14_pc, r14_crn, r14_nb, r14_nd, r14_app;
static _Bool r14_gap_ok, r14_started;
static void c14_event_init(unsigned state0) {
    r14_hi = 0; r14_pi = 0; r14_po = 0; r14_pc = 0; r14_crn = 0; r14_nb = 0; r14_nd = 0; r14_app = 0; r14_started = 0;
    r14_gap_ok = (state0 >= STATE_BOUNDARY_IS_LAST1);
}
static void c14_event(unsigned kind, unsigned src, size_t off, size_t len, int is_line) {
    if (kind == EV_BOUNDARY) {
        size_t end = len;
        if (g14_carried && r14_nb == 0) {
            VASSERT(r14_hi == 0 && !r14_started, "nothing of the chunk is handed out before the carried delimiter completes");
        } else {
            VASSERT(!r14_gap_ok, "two delimiters are separated by the end of the first one's line");
            VASSERT(end <= N && end >= r14_hi + (BL - 2) + 1 && end <= r14_hi + (BL - 2) + 2, "a delimiter inside the chunk is introduced by a line end (LF or CRLF) right behind the data");
            if (end <= N && end >= BL - 2)
                for (size_t j = 0; j + 2 < BL; j++)
                    VASSERT(g14_c[end - (BL - 2) + j] == g14_b[2 + j], "the bytes classified as delimiter are the delimiter");
        }
        r14_hi = end <= N ? end : N; r14_gap_ok = 1; r14_started = 1; r14_nb++;
        return;
    }
    VASSERT(len <= N + PMAX * PLEN + 1, "handed-out length did not wrap around");
    if (kind == EV_STORE || src == SRC_CHUNK) {
        VASSERT(src == SRC_CHUNK && off <= N && len <= N - off, "the range lies inside the chunk");
        VASSERT(off >= r14_hi, "chunk bytes are handed out in order and at most once");
        VASSERT(off == r14_hi || r14_gap_ok, "no chunk byte is skipped (except a delimiter line)");
        if (off > r14_hi && off <= N) VASSERT(g14_c[off - 1] == '\n', "data resumes right after the line feed that ends the delimiter line");
        VASSERT(r14_pi == g14_np0 || r14_pc == 0 || r14_nb > 0, "stored pieces are replayed before newer chunk bytes");
        if (kind == EV_STORE) { VASSERT(off + len == N, "the set-aside range extends to the end of the chunk"); r14_app++; }
        else r14_nd++;
        r14_hi = off + len; r14_gap_ok = 0; r14_started = 1;
    } else if (src != SRC_OTHER) {
        VASSERT(src == 1 + r14_pi && off == r14_po, "stored pieces are replayed contiguously, in order");
        size_t pl = 0;
        for (size_t i = 0; i < NP_MAX; i++) if (i + 1 == src) pl = g14_plen[i];
        VASSERT(off <= pl && len <= pl - off, "the range lies inside the stored piece");
        VASSERT(!r14_started, "stored pieces are replayed before any byte of the chunk");
        r14_pc += len; r14_po = off + len; r14_nd++;
        if (r14_po == pl) { r14_pi = src; r14_po = 0; }
    } else {
        VASSERT(len == 1 && !is_line, "any other range is the one-byte CR literal, not a line");
        VASSERT(g14_cr0 == 1 && r14_crn == 0, "the CR literal is handed out only for a CR that was set aside, once");
        VASSERT(!r14_started && r14_pc == 0, "the set-aside CR precedes the stored pieces and the chunk");
        r14_crn++; r14_nd++;
    }
}

/* WF of the stored pieces in STATE_BOUNDARY, checked on the builder model after the call */
static void c14_check_pieces(htp_mpartp_t *p) {
    size_t np = c14_nslots;
    size_t t = 0;
    VASSERT(np <= PMAX, "WF': at most |delimiter|-2 pieces are stored");
    for (size_t i = 0; i < PMAX + 1; i++) if (i < np) {
        bstr *b = c14_slot[i];
        size_t l = bstr_len(b);
        unsigned char *ptr = bstr_ptr(b);
        VASSERT(l >= 1 && (i > 0 || l >= p->boundary_candidate_pos), "WF': boundary_candidate_pos lies inside the first stored piece; no piece is empty");
        if (i == 0 && p->boundary_candidate_pos >= 1 && l >= p->boundary_candidate_pos)
            VASSERT(ptr[p->boundary_candidate_pos - 1] == '\n', "WF': the candidate follows a line feed");
        for (size_t j = 0; j < PLMAX; j++) if (j < l && (i > 0 || j >= p->boundary_candidate_pos)) {
            VASSERT(2 + t < BL && ptr[j] == g14_b[(2 + t) < BL ? 2 + t : 0], "WF': the stored bytes after the candidate position are the matched delimiter prefix");
            t++;
        }
    }
    VASSERT(t == p->boundary_match_pos - 2, "WF': boundary_match_pos counts exactly the stored matched bytes");
    VASSERT(np > 0 || (p->boundary_candidate_pos == 0 && p->boundary_match_pos == 2) , "WF': nothing stored only in the initial state");
    if (p->cr_aside) {
        VASSERT(np >= 1 && p->boundary_candidate_pos == 1, "WF': a CR is kept across a candidate only when the LF directly follows it");
    }
}

static void c14_parse_harness(vin_t in) {
    /* ---------- symbolic WF start state ---------- */
    VASSUME(in.state >= STATE_DATA && in.state <= STATE_BOUNDARY_EAT_LWS_CR);
    VASSUME(in.cr <= 1 && in.mode <= 1);
    VASSUME(in.bnd[0] == '\r' && in.bnd[1] == '\n' && in.bnd[2] == '-' && in.bnd[3] == '-');
    for (size_t i = 4; i < BL; i++) VASSUME(in.bnd[i] < 0x80);      /* see notes: `char` comparison, 8-bit boundaries never match */
    VASSUME(in.bcount >= 0 && in.bcount <= INT_MAX - N);             /* int boundary_count++ (2^31 delimiters) */
    VASSUME(in.bmp >= 2 && in.bmp <= BL);
    size_t sum0 = 0;
#ifdef C14_NO_PIECES
    VASSUME(in.np == 0);
#endif
#ifdef C14_ONLY_PIECES
    VASSUME(in.state == STATE_BOUNDARY && in.np >= 1);
#endif
    if (in.state != STATE_BOUNDARY) {
        VASSUME(in.np == 0);
        VASSUME(in.cr == 0 || in.state == STATE_DATA);
    } else {
        VASSUME(in.bmp < BL && in.np <= PMAX && in.bcp <= PCAP);
        size_t t = 0;
        for (size_t i = 0; i < PMAX; i++) if (i < in.np) {
            VASSUME(in.pl[i] >= 1 && in.pl[i] <= (i == 0 ? PLEN : BL - 3) && (i > 0 || in.pl[i] >= in.bcp));
            for (size_t j = 0; j < PLEN; j++) if (j < in.pl[i] && (i > 0 || j >= in.bcp)) {
                VASSUME(2 + t < BL); VASSUME(in.pb[i][j] == in.bnd[2 + t]); t++;
            }
            sum0 += in.pl[i];
        }
        VASSUME(t == in.bmp - 2);
        if (in.np == 0) VASSUME(in.bcp == 0);
        else if (in.bcp >= 1) VASSUME(in.pb[0][in.bcp - 1] == '\n');
        if (in.cr) VASSUME(in.np >= 1 && in.bcp == 1);
    }
#ifdef KNOWN_F_C14_CR_LOST
    /* F-C14-CRLOST: a chunk that starts with CR right after a set-aside CR overwrites/clears cr_aside without
     * releasing the first CR (htp_multipart.c:1153 and :1173).  Excluded: exactly that entry condition. */
    VASSUME(!(in.state == STATE_DATA && in.cr == 1 && in.chunk[0] == '\r'));
#endif

    static htp_mpartp_t c14_parser;                     /* a named object: symex resolves parser->handle_data to the stub */
    htp_mpartp_t *p = &c14_parser;
    unsigned char *chunk = malloc(N);                   /* exactly N bytes: a read of data[len] is out of bounds */
    char *bnd = malloc(BL + 1);                          /* as htp_mpartp_init_boundary: BL bytes and a NUL */
    VASSUME(chunk != NULL && bnd != NULL);
    memcpy(chunk, in.chunk, N);
    memcpy(bnd, in.bnd, BL); bnd[BL] = 0;
    memset(p, 0, sizeof (*p));
    p->multipart.boundary = bnd; p->multipart.boundary_len = BL;
    p->multipart.boundary_count = in.bcount; p->multipart.flags = in.flags;
    p->handle_data = c14_handle_data; p->handle_boundary = c14_handle_boundary;
    p->parser_state = in.state; p->boundary_match_pos = in.bmp; p->boundary_candidate_pos = in.bcp;
    p->cr_aside = (int) in.cr; p->current_part_mode = in.mode ? MODE_DATA : MODE_LINE;
    p->current_part = NULL;
    c14_bb.pieces = &c14_bbl; p->boundary_pieces = &c14_bb; c14_nslots = 0; c14_new = NULL;
    for (size_t i = 0; i < NP_MAX; i++) if (i < in.np) {
        bstr *b = c14_piece_alloc(in.pb[i], in.pl[i], PLEN, i == 0);
        VASSUME(b != NULL);
        c14_slot[i] = b; c14_nslots = i + 1;
        g14_pdata[i] = (const unsigned char *) b + sizeof (bstr); g14_plen[i] = in.pl[i];
    }
    /* ---------- ghost log ---------- */
    g14_chunk = chunk; memcpy(g14_c, in.chunk, N); memcpy(g14_b, in.bnd, BL);
    g14_hi = 0; g14_nb = 0; g14_app_n = 0; g14_app_failed = 0; c14_event_init(in.state);
    g14_bmp0 = in.bmp; g14_cr0 = (int) in.cr; g14_np0 = in.np; g14_modeseq = in.modeseq; g14_calls = 0;
    int outcome = (in.state == STATE_BOUNDARY) ? ref_candidate(in.bnd, BL, in.bmp, in.chunk, N) : -1;
    g14_carried = (outcome == REF_CAND_MATCH);

#ifdef C14_FINALIZE
    /* ---------- end of body: htp_mpartp_finalize from the same symbolic WF state, no part object yet (current_part == NULL) ---------- */
    g14_carried = 0;
    htp_status_t frc = htp_mpartp_finalize(p);
    VASSERT(frc == HTP_OK, "finalize without a part object returns HTP_OK");
    VASSERT(r14_pc == sum0 && r14_pi == in.np, "finalize: the stored pieces of an open candidate are handed out in full, also when they are all there is of the last part");
    VASSERT(r14_crn == (size_t) in.cr, "finalize: a set-aside CR is released as data");
    VASSERT(c14_nslots == 0, "finalize: nothing stays stored");
    VASSERT(r14_hi == 0 && r14_nb == 0 && r14_app == 0, "finalize hands out no chunk byte, reports no delimiter, stores nothing");
#ifdef VNATIVE
    g14_app_n = 0; c14_bb_clear(&c14_bb); free(chunk); free(bnd);
#endif
    return;
#endif
    /* ---------- one call ---------- */
    htp_status_t rc = htp_mpartp_parse(p, chunk, N);

    if (c14_new != NULL && c14_nslots <= PMAX) { c14_slot[c14_nslots] = c14_new; c14_nslots++; }   /* the piece stored by this call */
    if (g14_app_failed) {
        /* ---------- C18: the set-aside copy failed: error reported, bytes lost (degraded), WF re-established without an open candidate ---------- */
        VASSERT(rc == HTP_ERROR, "a failed set-aside copy is reported as HTP_ERROR");
        VASSERT(p->parser_state >= STATE_DATA && p->parser_state <= STATE_BOUNDARY_EAT_LWS_CR && p->parser_state != STATE_BOUNDARY,
                "WF' after a failed set-aside copy: no candidate stays open (its position would refer to lost bytes)");
        VASSERT(c14_nslots == 0 && c14_new == NULL, "WF' after a failed set-aside copy: nothing stays stored");
        VASSERT(p->cr_aside == 0 || (p->cr_aside == 1 && p->parser_state == STATE_DATA), "WF' after a failed set-aside copy: cr_aside");
        VASSERT(p->multipart.boundary == bnd && p->multipart.boundary_len == BL, "delimiter string untouched");
#ifdef VNATIVE
        g14_app_n = 0; c14_bb_clear(&c14_bb); free(chunk); free(bnd);
#endif
        return;
    }
    /* ---------- WF again ---------- */
    VASSERT(rc == HTP_OK, "parse returns HTP_OK");
    VASSERT(p->parser_state >= STATE_DATA && p->parser_state <= STATE_BOUNDARY_EAT_LWS_CR, "WF': parser_state in range");
    VASSERT(p->cr_aside == 0 || p->cr_aside == 1, "WF': cr_aside is 0 or 1");
    VASSERT(p->boundary_match_pos >= 2 && p->boundary_match_pos <= BL, "WF': 2 <= boundary_match_pos <= boundary_len");
    VASSERT(p->multipart.boundary == bnd && p->multipart.boundary_len == BL, "delimiter string untouched");
    size_t np1 = c14_nslots;
    if (p->parser_state != STATE_BOUNDARY) {
        VASSERT(np1 == 0, "WF': pieces are stored only while a candidate is open");
        VASSERT(p->cr_aside == 0 || p->parser_state == STATE_DATA, "WF': a CR is set aside only in data / candidate state");
    } else {
        VASSERT(p->boundary_match_pos < BL, "WF': an open candidate is incomplete");
        c14_check_pieces(p);
    }
    /* ---------- byte conservation for the chunk ---------- */
    VASSERT(r14_hi <= N, "accounted chunk bytes <= chunk length");
    if (p->parser_state == STATE_DATA)
        VASSERT(r14_hi + (size_t) p->cr_aside == N ||
                (r14_gap_ok && (p->cr_aside == 0 || p->cr_aside == 1) && N > (size_t) p->cr_aside && in.chunk[N - 1 - (p->cr_aside == 1)] == '\n'),
                "conservation (data state): every chunk byte was handed out, or is the set-aside CR, or belongs to a delimiter line that ends right in front");
    else if (p->parser_state == STATE_BOUNDARY)
        VASSERT(r14_app == 1 && r14_hi == N, "conservation (candidate state): the unhanded tail of the chunk was stored, once");
    else
        VASSERT(r14_gap_ok, "conservation (delimiter line): the unhanded tail belongs to a delimiter line");
    VASSERT(r14_app <= 1 && (r14_app == 0 || p->parser_state == STATE_BOUNDARY), "set-aside happens only when the chunk ends inside a candidate");
    /* ---------- the set-aside CR ---------- */
    if (in.cr == 0) VASSERT(r14_crn == 0, "no CR is invented");
    else {
        int oc = outcome;
        if (in.state == STATE_DATA) oc = (in.chunk[0] == '\n') ? ref_candidate(in.bnd, BL, 2, in.chunk + 1, N - 1) : REF_CAND_REFUTED;
        if (oc == REF_CAND_REFUTED) VASSERT(r14_crn == 1, "conservation: a set-aside CR that is not part of a delimiter is released as data");
        if (oc == REF_CAND_MATCH) VASSERT(r14_crn == 0 && r14_nb >= 1, "a set-aside CR in front of LF + delimiter belongs to the delimiter");
        if (oc == REF_CAND_UNDECIDED) VASSERT(r14_crn == 0 && p->cr_aside == 1 && p->parser_state == STATE_BOUNDARY, "an undecided CR stays set aside");
    }
    /* ---------- the stored pieces ---------- */
    if (outcome == REF_CAND_UNDECIDED) {
        VASSERT(r14_nd == 0 && r14_nb == 0 && r14_pc == 0, "undecided candidate: nothing is handed out");
        VASSERT(p->parser_state == STATE_BOUNDARY && p->boundary_match_pos == in.bmp + N && p->boundary_candidate_pos == in.bcp
                && np1 == in.np + 1 && p->multipart.flags == in.flags && p->cr_aside == (int) in.cr,
                "undecided candidate: the whole chunk is stored behind the earlier pieces, nothing else changes");
    } else if (outcome == REF_CAND_REFUTED) {
        VASSERT(r14_pc == sum0 && r14_pi == in.np, "conservation: a refuted candidate is replayed as data in full");
    } else if (outcome == REF_CAND_MATCH) {
        VASSERT(r14_nb >= 1, "a completed delimiter is reported");
        VASSERT(r14_pc == (in.np ? in.bcp - ref_line_end_len(in.pb[0], in.bcp) : 0),
                "completed delimiter: exactly the stored bytes in front of its line end are data");
    } else VASSERT(r14_pc == 0, "nothing stored, nothing replayed");
    VASSERT((p->multipart.flags & in.flags) == in.flags, "anomaly flags only accumulate");
    VASSERT(p->multipart.boundary_count == in.bcount + (int) r14_nb, "boundary_count counts the reported delimiters");
#ifdef VNATIVE
    g14_app_n = 0; c14_bb_clear(&c14_bb); free(chunk); free(bnd);
#endif
}
#endif /* C14_PARSE_UNIT */


#endif
