/* Contracts of the line-oriented REQUEST states: htp_connp_REQ_LINE (+ htp_connp_REQ_LINE_complete), htp_connp_REQ_PROTOCOL,
 * htp_connp_REQ_HEADERS (units/sm_reqline.py).  Every state contract CONTAINS RQ_COMMON_POST (contracts/sm.h), so
 * "enforced => shared state contract" holds syntactically (DESIGN 8.4).  Ghosts: contracts/ghost_c09.h (g_ql_*, g_qh_*). */
#ifndef SM_REQLINE_H
#define SM_REQLINE_H
#include "sm.h"
#define RV __CPROVER_return_value
#define QL_RC3(r) ((r) == HTP_OK || (r) == HTP_STOP || (r) == HTP_ERROR)

/* ==== call-site stubs ================================================================================== */
/* consolidate as seen from a line state: sm.h's stub PLUS "the region handed over contains at least the pending bytes of
 * this chunk" (real function: len == buffered + (read - consume); lemma unit htp_connp_req_consolidate_clear, C10/C03) */
htp_status_t contract_ql_consolidate(htp_connp_t *connp, unsigned char **data, size_t *len)
__CPROVER_requires(__CPROVER_rw_ok(connp, sizeof(*connp)) && __CPROVER_w_ok(data, sizeof(*data)) && __CPROVER_w_ok(len, sizeof(*len)))
__CPROVER_requires(0 <= connp->in_current_consume_offset && connp->in_current_consume_offset <= connp->in_current_read_offset && connp->in_current_read_offset <= CHUNK_CAP)
__CPROVER_assigns(g_consol_n, g_consol_len, *data, *len, connp->in_buf, connp->in_buf_size, connp->in_current_consume_offset)
__CPROVER_ensures(g_consol_n == 1 && (RV == HTP_OK ==> g_consol_len == *len))
__CPROVER_ensures(RV == HTP_OK || RV == HTP_ERROR)
__CPROVER_ensures(RV == HTP_OK ==> (*len <= LINE_CAP && __CPROVER_is_fresh(*data, *len)))
__CPROVER_ensures(RV == HTP_OK ==> *len >= (size_t) (connp->in_current_read_offset - O(connp->in_current_consume_offset)))
__CPROVER_ensures(RV != HTP_OK ==> (*data == O(*data) && *len == O(*len)))
__CPROVER_ensures(connp->in_current_consume_offset == O(connp->in_current_consume_offset) || connp->in_current_consume_offset == connp->in_current_read_offset)
;
/* The REAL htp_connp_req_consolidate_data against what contract_ql_consolidate / contract_qh_consolidate promise (unit htp_connp_req_consolidate_data_site):
 * same frame, same result set, same consume-offset law, out-parameters untouched on failure, and the region handed over is readable and holds
 * buffered + pending bytes.  (The stubs say "fresh region" where the real function returns a range of the chunk or the buffer: readable is what is enforceable.) */
htp_status_t contract_ql_site_req_buffer(htp_connp_t *connp)
__CPROVER_requires(__CPROVER_rw_ok(connp, sizeof(*connp)) && connp->in_buf != NULL)
__CPROVER_assigns(connp->in_buf, connp->in_buf_size, connp->in_current_consume_offset)
__CPROVER_ensures(RV == HTP_OK || RV == HTP_ERROR)
/* lemma units htp_connp_req_buffer_cap4/6 (C10): OK => size += pending, consumer catches up; nothing pending => nothing changes; failure => nothing changes */
__CPROVER_ensures((RV == HTP_OK && O(connp->in_current_read_offset) > O(connp->in_current_consume_offset)) ==> (connp->in_current_consume_offset == connp->in_current_read_offset &&
    connp->in_buf_size == O(connp->in_buf_size) + (size_t) (O(connp->in_current_read_offset) - O(connp->in_current_consume_offset)) && __CPROVER_is_fresh(connp->in_buf, connp->in_buf_size)))
__CPROVER_ensures((RV != HTP_OK || O(connp->in_current_read_offset) == O(connp->in_current_consume_offset)) ==> (connp->in_current_consume_offset == O(connp->in_current_consume_offset) &&
    connp->in_buf_size == O(connp->in_buf_size) && connp->in_buf == O(connp->in_buf)))
;
htp_status_t contract_real_req_consolidate(htp_connp_t *connp, unsigned char **data, size_t *len)
__CPROVER_requires(CUR_IN(connp) && !g_in_gap && __CPROVER_is_fresh(data, sizeof(*data)) && __CPROVER_is_fresh(len, sizeof(*len)))
__CPROVER_requires(connp->in_buf == NULL ? connp->in_buf_size == 0 : (connp->in_buf_size > 0 && connp->in_buf_size <= LINE_CAP && __CPROVER_is_fresh(connp->in_buf, connp->in_buf_size)))
__CPROVER_assigns(*data, *len, connp->in_buf, connp->in_buf_size, connp->in_current_consume_offset)
__CPROVER_ensures(RV == HTP_OK || RV == HTP_ERROR)
__CPROVER_ensures(RV == HTP_OK ==> (*len == O(connp->in_buf_size) + (size_t) (connp->in_current_read_offset - O(connp->in_current_consume_offset)) && (*len == 0 || __CPROVER_r_ok(*data, *len))))
__CPROVER_ensures(RV == HTP_OK ==> *len >= (size_t) (connp->in_current_read_offset - O(connp->in_current_consume_offset)))
__CPROVER_ensures(RV != HTP_OK ==> (*data == O(*data) && *len == O(*len)))
__CPROVER_ensures(connp->in_current_consume_offset == O(connp->in_current_consume_offset) || connp->in_current_consume_offset == connp->in_current_read_offset)
/* nothing buffered: the line is a range of the chunk itself and nothing moves */
__CPROVER_ensures(O(connp->in_buf) == NULL ==> (RV == HTP_OK && *data == connp->in_current_data + O(connp->in_current_consume_offset) && connp->in_buf == NULL &&
    connp->in_current_consume_offset == O(connp->in_current_consume_offset)))
;
/* line classification before a request line (real meaning: bounded unit in units/c02_extract.py) */
int contract_ql_is_line_ignorable(htp_connp_t *connp, unsigned char *data, size_t len)
__CPROVER_requires(len <= LINE_CAP && __CPROVER_r_ok(data, len))
__CPROVER_assigns(g_ql_ign_n, g_ql_ign)
__CPROVER_ensures(g_ql_ign_n == 1 && (RV == 0 || RV == 1) && g_ql_ign == RV)
;
/* what the request-line parser (cfg->parse_request_line, generic personality; C02 units) may write */
#define QL_PARSE_FIELDS(tx) (tx)->request_method, (tx)->request_method_number, (tx)->request_uri, (tx)->request_protocol, (tx)->request_protocol_number, \
    (tx)->is_protocol_0_9, (tx)->response_status_expected_number, (tx)->flags
htp_status_t contract_ql_parse_request_line(htp_connp_t *connp)
__CPROVER_requires(__CPROVER_rw_ok(connp, sizeof(*connp)) && __CPROVER_rw_ok(connp->in_tx, sizeof(htp_tx_t)))
/* the parser works on the transaction's copy of the line, which must exist; the transition has not run yet */
__CPROVER_requires(connp->in_tx->request_line != NULL && g_txstate_n == 0)
__CPROVER_assigns(g_ql_parse_n, QL_PARSE_FIELDS(connp->in_tx))
__CPROVER_ensures(g_ql_parse_n == 1)
;
/* the transition after the request line as seen from the state function (enforced: unit htp_tx_state_request_line, C05):
 * callbacks answer OK / STOP / ERROR; OK moves the request side to REQ_PROTOCOL, anything else leaves the state alone; the cursor is not in its frame */
htp_status_t contract_ql_tx_state_request_line(htp_tx_t *tx)
__CPROVER_requires(tx != NULL && __CPROVER_rw_ok(tx, sizeof(*tx)) && __CPROVER_rw_ok(tx->connp, sizeof(htp_connp_t)))
/* the line has been parsed before the transition runs */
__CPROVER_requires(g_ql_parse_n == 1)
__CPROVER_assigns(g_txstate_n, g_txstate_which, g_ql_clr_at_tx, tx->connp->in_state, tx->flags, tx->parsed_uri, tx->parsed_uri_raw)
__CPROVER_ensures(g_txstate_n == 1 && g_txstate_which == 4 && g_ql_clr_at_tx == g_clear_n && QL_RC3(RV))
__CPROVER_ensures(RV == HTP_OK ? tx->connp->in_state == htp_connp_REQ_PROTOCOL : tx->connp->in_state == O(tx->connp->in_state))
;

/* ==== htp_connp_REQ_LINE_complete: a complete request line (or the rest of a closed stream) is at hand ================ */
#define QL_TX_FIELDS(tx) (tx)->request_line, (tx)->request_ignored_lines, QL_PARSE_FIELDS(tx), (tx)->parsed_uri, (tx)->parsed_uri_raw
#define QL_GHOSTS g_consol_n, g_consol_len, g_clear_n, g_txstate_n, g_txstate_which, g_ql_parse_n, g_ql_ign_n, g_ql_ign, g_ql_clr_at_tx
#define QL_GHOSTS_ZERO (g_consol_n == 0 && g_clear_n == 0 && g_txstate_n == 0 && g_ql_parse_n == 0 && g_ql_ign_n == 0)
#define QL_COMPLETE_ASSIGNS(c) QL_GHOSTS, (c)->in_buf, (c)->in_buf_size, (c)->in_current_consume_offset, (c)->in_state, QL_TX_FIELDS((c)->in_tx)
/* the frame says: read offset, stream offset, chunk identity, stream status, attached transaction, cfg, conn are NOT written */
#define QL_NOTHING_DECIDED(c) (g_txstate_n == 0 && g_ql_parse_n == 0 && (c)->in_state == O((c)->in_state) && (c)->in_tx->flags == O((c)->in_tx->flags) && \
    (c)->in_tx->request_line == O((c)->in_tx->request_line) && (c)->in_tx->is_protocol_0_9 == O((c)->in_tx->is_protocol_0_9))
#define QL_CLEARED(c) (g_clear_n == 1 && (c)->in_current_consume_offset == (c)->in_current_read_offset && (c)->in_buf == NULL && (c)->in_buf_size == 0)
#define QL_COMPLETE_POST(c) ( \
    (RV == HTP_OK || RV == HTP_ERROR || RV == HTP_DATA) && g_consol_n == 1 && \
    ((c)->in_current_consume_offset == O((c)->in_current_consume_offset) || (c)->in_current_consume_offset == (c)->in_current_read_offset) && \
    ((c)->in_state == O((c)->in_state) || (c)->in_state == htp_connp_REQ_PROTOCOL) && \
    /* DATA: only when there was nothing at all to look at (empty region); nothing is decided */ \
    (RV == HTP_DATA ==> (g_consol_len == 0 && O((c)->in_current_read_offset) == O((c)->in_current_consume_offset) && QL_CLEARED(c) && g_ql_ign_n == 0 && QL_NOTHING_DECIDED(c) && \
                        (c)->in_tx->request_ignored_lines == O((c)->in_tx->request_ignored_lines))) && \
    /* OK: the line has been consumed, exactly once: the buffer is gone and consume == read */ \
    (RV == HTP_OK ==> (QL_CLEARED(c) && g_ql_ign_n == 1 && g_consol_len > 0)) && \
    /* OK on an ignorable (empty / white-space) line: counted, discarded, nothing decided */ \
    ((RV == HTP_OK && g_ql_ign) ==> (QL_NOTHING_DECIDED(c) && (c)->in_tx->request_ignored_lines == O((c)->in_tx->request_ignored_lines) + 1)) && \
    /* OK on a request line: copied (shorter or equal after chomp), parsed, then the transition ran, exactly in that order, and moved the state on; \
     * the line was still buffered while the callbacks ran (clear happens after the transition) */ \
    ((RV == HTP_OK && !g_ql_ign) ==> (g_ql_parse_n == 1 && g_txstate_n == 1 && g_txstate_which == 4 && g_ql_clr_at_tx == 0 && (c)->in_state == htp_connp_REQ_PROTOCOL && \
        (c)->in_tx->request_line != NULL && (c)->in_tx->request_ignored_lines == O((c)->in_tx->request_ignored_lines))) && \
    /* an ignorable line never reaches the parser; the transition never runs without the parser; no transition => same state */ \
    ((g_ql_ign_n == 1 && g_ql_ign) ==> (g_ql_parse_n == 0 && g_txstate_n == 0)) && (g_txstate_n == 1 ==> g_ql_parse_n == 1) && \
    (g_txstate_n == 0 ==> (c)->in_state == O((c)->in_state)) && (RV != HTP_OK ==> (c)->in_state == O((c)->in_state)))

#define QL_LIVE(c) ((c)->in_state == htp_connp_REQ_LINE && (c)->in_status != HTP_STREAM_STOP && (c)->in_status != HTP_STREAM_ERROR && \
    (c)->in_tx->request_ignored_lines < 0xffffffffu && QL_GHOSTS_ZERO && \
    (c)->cfg->parse_request_line == htp_parse_request_line_generic)
/* enforced on the real function */
htp_status_t contract_htp_connp_REQ_LINE_complete(htp_connp_t *connp)
/* (no bound on the stream offset here: the function does not touch it, and REQ_LINE calls it after having advanced it) */
__CPROVER_requires(__CPROVER_is_fresh(connp, sizeof(htp_connp_t)) && CUR_IN_CURSOR(connp) && __CPROVER_is_fresh(connp->in_current_data, connp->in_current_len) &&
    TX_IN(connp) && __CPROVER_is_fresh(connp->cfg, sizeof(htp_cfg_t)) && QL_LIVE(connp))
__CPROVER_assigns(QL_COMPLETE_ASSIGNS(connp))
__CPROVER_ensures(QL_COMPLETE_POST(connp))
/* the transaction's copy of the line is never longer than the consolidated line (line terminators chomped) */
__CPROVER_ensures((RV == HTP_OK && !g_ql_ign) ==> connp->in_tx->request_line->len <= g_consol_len)
;
/* the same contract as seen from htp_connp_REQ_LINE (replace mode: validity instead of freshness; same frame, same post) */
htp_status_t contract_site_htp_connp_REQ_LINE_complete(htp_connp_t *connp)
__CPROVER_requires(__CPROVER_rw_ok(connp, sizeof(*connp)) && CUR_IN_CURSOR(connp) && __CPROVER_rw_ok(connp->in_tx, sizeof(htp_tx_t)) && connp->in_tx->connp == connp &&
    __CPROVER_rw_ok(connp->cfg, sizeof(htp_cfg_t)) && QL_LIVE(connp))
__CPROVER_assigns(QL_COMPLETE_ASSIGNS(connp))
__CPROVER_ensures(QL_COMPLETE_POST(connp))
;

/* ==== htp_connp_REQ_LINE ================================================================================ */
#define QL_NO_LF(c, FROM, TO) ((gk < CHUNK_CAP && (int64_t) gk >= (FROM) && (int64_t) gk < (TO)) ==> (c)->in_current_data[gk] != LF)
htp_status_t contract_htp_connp_REQ_LINE(htp_connp_t *connp)
__CPROVER_requires(CUR_IN(connp) && TX_IN(connp) && !g_in_gap && __CPROVER_is_fresh(connp->cfg, sizeof(htp_cfg_t)) && QL_LIVE(connp))
__CPROVER_assigns(QL_COMPLETE_ASSIGNS(connp), connp->in_next_byte, connp->in_current_read_offset, connp->in_stream_offset)
/* C09: documented codes only; the stream offset grows by exactly the bytes read */
__CPROVER_ensures(RV == HTP_OK || RV == HTP_ERROR || RV == HTP_DATA || RV == HTP_DATA_BUFFER)
__CPROVER_ensures(connp->in_stream_offset == O(connp->in_stream_offset) + (connp->in_current_read_offset - O(connp->in_current_read_offset)))
/* C03 (L2): the line is not complete (no LF up to the end of the chunk, stream still open) => DATA_BUFFER with the chunk exhausted and NOTHING decided:
 * no helper ran, state / transaction flags / buffer / consume offset untouched */
__CPROVER_ensures(RV == HTP_DATA_BUFFER ==> (connp->in_current_read_offset == connp->in_current_len && connp->in_status != HTP_STREAM_CLOSED &&
    g_consol_n == 0 && g_clear_n == 0 && g_ql_ign_n == 0 && QL_NOTHING_DECIDED(connp) && connp->in_tx->request_ignored_lines == O(connp->in_tx->request_ignored_lines) &&
    connp->in_current_consume_offset == O(connp->in_current_consume_offset) && connp->in_buf == O(connp->in_buf) && connp->in_buf_size == O(connp->in_buf_size) &&
    QL_NO_LF(connp, O(connp->in_current_read_offset), connp->in_current_len)))
/* ... and conversely a decision is taken only at the FIRST LF (none skipped), or at the end of the chunk of a closed stream */
__CPROVER_ensures(RV != HTP_DATA_BUFFER ==> (g_consol_n == 1 && QL_NO_LF(connp, O(connp->in_current_read_offset), connp->in_current_read_offset - 1) &&
    ((connp->in_current_read_offset > O(connp->in_current_read_offset) && connp->in_current_data[connp->in_current_read_offset - 1] == LF) ||
     (connp->in_status == HTP_STREAM_CLOSED && connp->in_current_read_offset == connp->in_current_len))))
/* DATA (nothing left at all) only on a closed stream with nothing pending */
__CPROVER_ensures(RV == HTP_DATA ==> (connp->in_status == HTP_STREAM_CLOSED && connp->in_current_read_offset == O(connp->in_current_read_offset) && QL_NOTHING_DECIDED(connp)))
/* C06/C05: a completed line is consumed exactly once (buffer cleared, consume == read); ignorable lines are counted and decide nothing;
 * a request line is parsed, THEN the transition runs, and only its success moves the state (to REQ_PROTOCOL) */
__CPROVER_ensures(RV == HTP_OK ==> (QL_CLEARED(connp) && g_ql_ign_n == 1))
__CPROVER_ensures((RV == HTP_OK && g_ql_ign) ==> (QL_NOTHING_DECIDED(connp) && connp->in_tx->request_ignored_lines == O(connp->in_tx->request_ignored_lines) + 1))
__CPROVER_ensures((RV == HTP_OK && !g_ql_ign) ==> (g_ql_parse_n == 1 && g_txstate_n == 1 && connp->in_state == htp_connp_REQ_PROTOCOL && connp->in_tx->request_line != NULL))
__CPROVER_ensures((g_txstate_n == 1 ==> g_ql_parse_n == 1) && (g_txstate_n == 0 ==> connp->in_state == O(connp->in_state)) && (RV != HTP_OK ==> connp->in_state == O(connp->in_state)))
__CPROVER_ensures(RQ_COMMON_POST(connp))
;
/* ==== htp_connp_REQ_PROTOCOL: HTTP/0.9 or "protocol missing"? ============================================== */
/* The function looks at the bytes that happen to be left in the current chunk and never waits for more (it has no DATA_BUFFER
 * exit).  The clauses below are the per-call facts; the ones that hold for EVERY chunking of a stream are marked (*).
 * Its decision for a protocol-less request line depends on chunk geometry: see findings/c03_req_protocol_probe.c (C03) and the
 * strict clause QP_STRICT_L2 below, which FAILS on the unchanged tree (unit htp_connp_REQ_PROTOCOL_L2_strict, not registered). */
#define QP_WINDOW 16
#define QP_REST(c) ((c)->in_current_len - (c)->in_current_read_offset)
htp_status_t contract_htp_connp_REQ_PROTOCOL(htp_connp_t *connp)
__CPROVER_requires(RQ_PRE(connp, htp_connp_REQ_PROTOCOL))
/* frame: the cursor, the buffer and the stream status are not assignable: the probe consumes nothing (*) */
__CPROVER_assigns(connp->in_state, connp->in_tx->request_progress, connp->in_tx->is_protocol_0_9)
/* (*) never asks for data, never fails */
__CPROVER_ensures(RV == HTP_OK)
/* (*) a request line that carried a protocol goes on to the headers, whatever follows */
__CPROVER_ensures(O(connp->in_tx->is_protocol_0_9) == 0 ==> (connp->in_state == htp_connp_REQ_HEADERS && connp->in_tx->request_progress == HTP_REQUEST_HEADERS && connp->in_tx->is_protocol_0_9 == 0))
/* (*) exactly two outcomes; "headers follow" always comes with the 0.9 mark cleared and progress HEADERS, "request complete" leaves both alone */
__CPROVER_ensures(connp->in_state == htp_connp_REQ_HEADERS || connp->in_state == htp_connp_REQ_FINALIZE)
__CPROVER_ensures(connp->in_state == htp_connp_REQ_HEADERS ==> (connp->in_tx->is_protocol_0_9 == 0 && connp->in_tx->request_progress == HTP_REQUEST_HEADERS))
__CPROVER_ensures(connp->in_state == htp_connp_REQ_FINALIZE ==> (O(connp->in_tx->is_protocol_0_9) != 0 && connp->in_tx->is_protocol_0_9 == O(connp->in_tx->is_protocol_0_9) &&
    connp->in_tx->request_progress == O(connp->in_tx->request_progress)))
/* (*) HTTP/0.9 is confirmed only if NOTHING but white space was seen: a non-space byte anywhere in the rest of the chunk, or more than 16 bytes of anything, means "protocol missing" */
__CPROVER_ensures((gk < CHUNK_CAP && (int64_t) gk >= connp->in_current_read_offset && (int64_t) gk < connp->in_current_len && !ISSP(connp->in_current_data[gk])) ==> connp->in_state == htp_connp_REQ_HEADERS)
__CPROVER_ensures(QP_REST(connp) > QP_WINDOW ==> connp->in_state == htp_connp_REQ_HEADERS)
/* per call (NOT chunking-invariant, see the finding): at most 16 bytes left, all of them white space (in particular: nothing left) => the request is taken as HTTP/0.9 */
#ifdef QP_STRICT_L2
/* C03 L2 as designed (DESIGN "C03", L2): a look-ahead that cannot see the bytes it wants must defer, not decide.  Fails on the unchanged tree. */
__CPROVER_ensures((O(connp->in_tx->is_protocol_0_9) != 0 && QP_REST(connp) <= QP_WINDOW && connp->in_status != HTP_STREAM_CLOSED) ==> connp->in_state != htp_connp_REQ_FINALIZE)
#endif
__CPROVER_ensures(RQ_COMMON_POST(connp))
;
/* ==== htp_connp_REQ_HEADERS: the request header block (and the trailer block after a chunked body) =========== */
/* (QH_HBOUND, QH_HDR_INV, QH_LOOP_ASSIGNS, QH_PENDING_NO_LF are used by loop invariants and therefore live in ghost_c09.h) */
/* Stubs.  Deliberately LEAN: every --replace-call-with-contract site costs ~3000 symex steps of write-set bookkeeping and every assigns target of a
 * replaced callee is checked against the loop's and the function's write set; the earlier attempt drowned in exactly that (22 sites).  So only the callees
 * that are static in htp_request.c (consolidate, clear_buffer) and the transaction transition are contracts, without log ghosts inside the loop; what has to
 * hold at a call is put into REQUIRES, which dfcc asserts at every call in every iteration (that is the unbounded claim).
 * Only the LENGTH of the pending header is modelled; its bytes are the business of the C02 / C03 units. */
htp_status_t contract_qh_consolidate(htp_connp_t *connp, unsigned char **data, size_t *len)
__CPROVER_requires(__CPROVER_rw_ok(connp, sizeof(*connp)) && __CPROVER_w_ok(data, sizeof(*data)) && __CPROVER_w_ok(len, sizeof(*len)))
__CPROVER_assigns(*data, *len, connp->in_buf, connp->in_buf_size, connp->in_current_consume_offset)
__CPROVER_ensures(RV == HTP_OK || RV == HTP_ERROR)
__CPROVER_ensures(RV == HTP_OK ==> (*len <= LINE_CAP && __CPROVER_is_fresh(*data, *len)))
__CPROVER_ensures(connp->in_current_consume_offset == O(connp->in_current_consume_offset) || connp->in_current_consume_offset == connp->in_current_read_offset)
;
void contract_qh_clear_buffer(htp_connp_t *connp)
__CPROVER_requires(__CPROVER_rw_ok(connp, sizeof(*connp)))
__CPROVER_assigns(connp->in_buf, connp->in_buf_size, connp->in_current_consume_offset)
__CPROVER_ensures(connp->in_buf == NULL && connp->in_buf_size == 0 && connp->in_current_consume_offset == connp->in_current_read_offset)
;
/* (header parser, bstr_dup_mem / bstr_add_mem / bstr_free, line classifiers, htp_chomp, htp_log: small C MODELS in units/sm_reqline.py QH_MODELS,
 * whose assertions carry the C10 claims "appended only while below HTP_MAX_HEADER_FOLDED" and "what reaches the header parser is below cap + one line") */
/* the transition at the end of the block as seen from the state function (enforced: unit htp_tx_state_request_headers, C05).
 * C06/C05 "the block is consumed exactly once": asserted AT THE CALL -- no header pending, buffer discarded, consume == read, no earlier transition. */
htp_status_t contract_qh_tx_state_request_headers(htp_tx_t *tx)
__CPROVER_requires(tx != NULL && __CPROVER_rw_ok(tx, sizeof(*tx)) && __CPROVER_rw_ok(tx->connp, sizeof(htp_connp_t)))
__CPROVER_requires(g_txstate_n == 0 && tx->connp->in_header == NULL && tx->connp->in_buf == NULL && tx->connp->in_buf_size == 0 &&
    tx->connp->in_current_consume_offset == tx->connp->in_current_read_offset)
/* C05 (REQUEST_HEADERS at most once): a block ended by the close of the stream is handed over as TRAILER progress, so that a header block that was
 * already reported is not reported again (progress is not in the stub's frame: the value at the call is the value on return) */
__CPROVER_requires(tx->connp->in_status == HTP_STREAM_CLOSED ==> tx->request_progress == HTP_REQUEST_TRAILER)
__CPROVER_assigns(g_txstate_n, tx->connp->in_state, tx->connp->in_current_receiver_offset)
__CPROVER_ensures(g_txstate_n == 1 && QL_RC3(RV))
__CPROVER_ensures(RV == HTP_OK ? (tx->connp->in_state == htp_connp_REQ_CONNECT_CHECK || tx->connp->in_state == htp_connp_REQ_FINALIZE) : tx->connp->in_state == O(tx->connp->in_state))
__CPROVER_ensures(tx->connp->in_current_receiver_offset == O(tx->connp->in_current_receiver_offset) || tx->connp->in_current_receiver_offset == tx->connp->in_current_read_offset)
;

/* (named contract_qh_...: contracts/sm.h still carries the declaration of the earlier, unregistered attempt under the default name) */
htp_status_t contract_qh_htp_connp_REQ_HEADERS(htp_connp_t *connp)
__CPROVER_requires(RQ_PRE(connp, htp_connp_REQ_HEADERS) && __CPROVER_is_fresh(connp->cfg, sizeof(htp_cfg_t)) && connp->cfg->process_request_header == htp_process_request_header_generic)
__CPROVER_requires(g_txstate_n == 0)
__CPROVER_requires(connp->in_header == NULL || (__CPROVER_is_fresh(connp->in_header, sizeof(bstr)) && connp->in_header->len < QH_HBOUND))
__CPROVER_assigns(QH_LOOP_ASSIGNS(connp), g_txstate_n, connp->in_state, connp->in_current_receiver_offset, connp->in_tx->request_progress)
/* C09: documented codes (STOP only out of the transition's callbacks); the stream offset grows by exactly the bytes read */
__CPROVER_ensures(RV == HTP_OK || RV == HTP_ERROR || RV == HTP_STOP || RV == HTP_DATA_BUFFER)
__CPROVER_ensures(connp->in_stream_offset == O(connp->in_stream_offset) + (connp->in_current_read_offset - O(connp->in_current_read_offset)))
/* C10: the pending header stays below the documented cap plus the line that crossed it (the append itself is guarded: assertion in the bstr_add_mem model) */
__CPROVER_ensures(QH_HDR_INV(connp->in_header))
/* C03 (L2) / C09: more data is asked for only with the chunk exhausted, on an open stream, with no transition run and the state unchanged; what is left
 * unconsumed for the driver to buffer is an UNFINISHED line (no LF in it): every complete line of the chunk has been taken and discarded */
__CPROVER_ensures(RV == HTP_DATA_BUFFER ==> (connp->in_current_read_offset == connp->in_current_len && connp->in_status != HTP_STREAM_CLOSED && g_txstate_n == 0 &&
    connp->in_state == O(connp->in_state) && connp->in_tx->request_progress == O(connp->in_tx->request_progress) && QH_PENDING_NO_LF(connp, O(connp->in_current_read_offset))))
/* C06/C05: the block ends through the transition, once, and only with everything consumed (asserted at the call: contract_qh_tx_state_request_headers);
 * OK / STOP come from nowhere else; the state moves only on its success */
__CPROVER_ensures((RV == HTP_OK || RV == HTP_STOP) ==> g_txstate_n == 1)
__CPROVER_ensures(g_txstate_n == 1 ==> (connp->in_header == NULL && connp->in_buf == NULL && connp->in_current_consume_offset == connp->in_current_read_offset))
__CPROVER_ensures(RV == HTP_OK ==> (connp->in_state == htp_connp_REQ_CONNECT_CHECK || connp->in_state == htp_connp_REQ_FINALIZE))
__CPROVER_ensures(RV != HTP_OK ==> connp->in_state == O(connp->in_state))
/* a closed stream ends the block at once: nothing is read, progress TRAILER, transition (or ERROR from the pending header) */
__CPROVER_ensures(connp->in_status == HTP_STREAM_CLOSED ==> (connp->in_current_read_offset == O(connp->in_current_read_offset) && RV != HTP_DATA_BUFFER &&
    (g_txstate_n == 1 ? connp->in_tx->request_progress == HTP_REQUEST_TRAILER : RV == HTP_ERROR)))
/* progress is written nowhere else */
__CPROVER_ensures(connp->in_status != HTP_STREAM_CLOSED ==> connp->in_tx->request_progress == O(connp->in_tx->request_progress))
__CPROVER_ensures(RQ_COMMON_POST(connp))
;
#endif
