/* Shared contracts of the request/response state machines (DESIGN 2.6 "state-indexed invariant").
 * Every state function is ENFORCED against   requires CUR_x(connp) && TXWF && <its own state fact>
 *                                            ensures  <accounting equations for that state>
 * with its callees REPLACED by the stub contracts below. */
#ifndef SM_H
#define SM_H

/* ---- well-formed inbound cursor ------------------------------------------------------------- */
/* entry only: the 64-bit stream offset has not yet passed 2^62 (so no counter wraps within this call) */
#define CUR_IN_FIELDS(c) (CUR_IN_CURSOR(c) && (c)->in_stream_offset <= OFFMAX)
/* chunk memory: a real chunk, or a gap (NULL with len > 0) where the state allows it */
#define CUR_IN(c) (__CPROVER_is_fresh((c), sizeof(htp_connp_t)) && CUR_IN_FIELDS(c) && \
    (g_in_gap ? (c)->in_current_data == NULL : __CPROVER_is_fresh((c)->in_current_data, (c)->in_current_len)))
#define TX_IN(c) (__CPROVER_is_fresh((c)->in_tx, sizeof(htp_tx_t)) && __CPROVER_pointer_equals((c)->in_tx->connp, (c)) && \
    (c)->in_tx->request_message_len >= 0 && (c)->in_tx->request_message_len <= OFFMAX && \
    (c)->in_tx->request_entity_len >= 0 && (c)->in_tx->request_entity_len <= OFFMAX)

#define CUR_OUT_FIELDS(c) (CUR_OUT_CURSOR(c) && (c)->out_stream_offset <= OFFMAX)
#define CUR_OUT(c) (__CPROVER_is_fresh((c), sizeof(htp_connp_t)) && CUR_OUT_FIELDS(c) && \
    (g_in_gap ? (c)->out_current_data == NULL : __CPROVER_is_fresh((c)->out_current_data, (c)->out_current_len)))
#define TX_OUT(c) (__CPROVER_is_fresh((c)->out_tx, sizeof(htp_tx_t)) && __CPROVER_pointer_equals((c)->out_tx->connp, (c)) && \
    (c)->out_tx->response_message_len >= 0 && (c)->out_tx->response_message_len <= OFFMAX && \
    (c)->out_tx->response_entity_len >= 0 && (c)->out_tx->response_entity_len <= OFFMAX)

#define RQ_SELF(c, SELF) ((c)->in_state == SELF && (c)->in_status != HTP_STREAM_STOP && (c)->in_status != HTP_STREAM_ERROR)
#define RS_SELF(c, SELF) ((c)->out_state == SELF && (c)->out_status != HTP_STREAM_STOP && (c)->out_status != HTP_STREAM_ERROR)
/* ---- body sink stubs: any return code; the call is logged -------------------------------------- */
#define BODY_LOG_ASSIGNS g_body_n, g_body_ptr, g_body_len, g_body_rc
/* the sinks map every callback failure to HTP_ERROR (enforced on the real functions) */
#define BODY_LOG_POST(data, len) (g_body_n == __CPROVER_old(g_body_n) + 1 && g_body_ptr == (const unsigned char *)(data) && \
    g_body_len == (len) && g_body_rc == __CPROVER_return_value && (__CPROVER_return_value == HTP_OK || __CPROVER_return_value == HTP_ERROR))
/* The stub's frame is the accounting-relevant part of the real function's frame: it does not touch the
 * cursor, the message length or the state.  That frame is enforced on the real function by the units
 * htp_tx_req_process_body_data_ex / htp_tx_res_process_body_data_ex (C06). */
htp_status_t contract_htp_tx_req_process_body_data_ex(htp_tx_t *tx, const void *data, size_t len)
__CPROVER_requires(g_body_n < 8)
__CPROVER_requires(data == NULL || len == 0 || __CPROVER_r_ok(data, len))
__CPROVER_assigns(BODY_LOG_ASSIGNS, tx->request_entity_len)
__CPROVER_ensures(BODY_LOG_POST(data, len));
/* response side: the sink itself adds the wire bytes to response_message_len (before anything can fail) */
htp_status_t contract_htp_tx_res_process_body_data_ex(htp_tx_t *tx, const void *data, size_t len)
__CPROVER_requires(g_body_n < 8 && tx != NULL && len <= CHUNK_CAP && tx->response_message_len >= 0 && tx->response_message_len <= OFFMAX + 2 * CHUNK_CAP)
__CPROVER_requires(data == NULL || len == 0 || __CPROVER_r_ok(data, len))
__CPROVER_assigns(BODY_LOG_ASSIGNS, tx->response_message_len, tx->response_entity_len)
__CPROVER_ensures(BODY_LOG_POST(data, len) && tx->response_message_len == __CPROVER_old(tx->response_message_len) + (int64_t) len);

void contract_htp_log(htp_connp_t *connp, const char *file, int line, enum htp_log_level_t level, int code, const char *fmt, ...)
__CPROVER_requires(1) __CPROVER_assigns() __CPROVER_ensures(1);

/* ---- request body states (C06) ------------------------------------------------------------------ */
#define O(e) __CPROVER_old(e)
/* DATA / DATA_BUFFER are only returned with the chunk exhausted; the cursor stays ordered and never moves back; chunk identity is kept */
#define RQ_COMMON_POST(c) ( \
    ((__CPROVER_return_value == HTP_DATA || __CPROVER_return_value == HTP_DATA_BUFFER) ==> (c)->in_current_read_offset == (c)->in_current_len) && \
    CUR_IN_CURSOR(c) && (c)->in_current_read_offset >= O((c)->in_current_read_offset) && \
    (c)->in_current_len == O((c)->in_current_len) && (c)->in_current_data == O((c)->in_current_data) && \
    (c)->conn == O((c)->conn) && (c)->cfg == O((c)->cfg) && (c)->in_chunk_count == O((c)->in_chunk_count) && \
    IS_REQ_STATE((c)->in_state) && REQ_TX_INV(c) && \
    /* a state function never reports the sticky states itself; only CONNECT handling touches the stream states */ \
    (c)->in_status != HTP_STREAM_STOP && (c)->in_status != HTP_STREAM_ERROR)
/* DATA / DATA_BUFFER are only returned with the chunk exhausted; the cursor stays ordered and never moves back; chunk identity is kept */
#define RS_COMMON_POST(c) ( \
    ((__CPROVER_return_value == HTP_DATA || __CPROVER_return_value == HTP_DATA_BUFFER) ==> (c)->out_current_read_offset == (c)->out_current_len) && \
    CUR_OUT_CURSOR(c) && \
    (c)->out_current_len == O((c)->out_current_len) && (c)->out_current_data == O((c)->out_current_data) && \
    (c)->conn == O((c)->conn) && (c)->cfg == O((c)->cfg) && \
    IS_RES_STATE((c)->out_state) && RES_TX_INV(c) && \
    /* a state function never reports the sticky states itself; only CONNECT handling touches the stream states */ \
    (c)->out_status != HTP_STREAM_STOP && (c)->out_status != HTP_STREAM_ERROR)
#define MIN64(a, b) ((a) < (b) ? (a) : (b))
/* n = bytes this call may take: min(owed, available) */
#define REQ_AVAIL(c) ((c)->in_current_len - (c)->in_current_read_offset)
/* __CPROVER_old accepts lvalue-like expressions only */
#define OAVAIL_IN(c) (O((c)->in_current_len) - O((c)->in_current_read_offset))

/* nothing available: ask for more, nothing moves, nothing delivered */
#define BODY_P1(c, LEFT) (OAVAIL_IN(c) == 0 ==> (__CPROVER_return_value == HTP_DATA && g_body_n == O(g_body_n) && \
        (c)->in_current_read_offset == O((c)->in_current_read_offset) && (c)->LEFT == O((c)->LEFT) && \
        (c)->in_tx->request_message_len == O((c)->in_tx->request_message_len)))
/* otherwise exactly one delivery of the range [old read, old read + n) of the caller's chunk, n = min(owed, available) */
#define BODY_P2(c, LEFT) (OAVAIL_IN(c) > 0 ==> (g_body_n == O(g_body_n) + 1 && \
        g_body_ptr == O((c)->in_current_data) + O((c)->in_current_read_offset) && \
        (int64_t) g_body_len == MIN64(O((c)->LEFT), OAVAIL_IN(c))))
/* sink refused: its code is returned and no counter moves */
#define BODY_P3(c, LEFT) ((OAVAIL_IN(c) > 0 && g_body_rc != HTP_OK) ==> (__CPROVER_return_value == g_body_rc && \
        (c)->in_current_read_offset == O((c)->in_current_read_offset) && (c)->LEFT == O((c)->LEFT) && \
        (c)->in_tx->request_message_len == O((c)->in_tx->request_message_len)))
/* sink accepted: delivered == consumed == -delta(left) == delta(message_len) == delta(stream offset) */
#define BODY_P4(c, LEFT) ((OAVAIL_IN(c) > 0 && g_body_rc == HTP_OK) ==> ( \
        (c)->in_current_read_offset == O((c)->in_current_read_offset) + (int64_t) g_body_len && \
        (c)->in_current_consume_offset == O((c)->in_current_consume_offset) + (int64_t) g_body_len && \
        (c)->in_stream_offset == O((c)->in_stream_offset) + (int64_t) g_body_len && \
        (c)->in_tx->request_message_len == O((c)->in_tx->request_message_len) + (int64_t) g_body_len && \
        (c)->LEFT == O((c)->LEFT) - (int64_t) g_body_len))
/* body finished exactly when nothing is owed (next byte starts what follows); else DATA with the chunk exhausted */
#define BODY_P5(c, LEFT, NEXT_STATE) ((OAVAIL_IN(c) > 0 && g_body_rc == HTP_OK) ==> \
        ((c)->LEFT == 0 ? (__CPROVER_return_value == HTP_OK && (c)->in_state == NEXT_STATE) \
                        : (__CPROVER_return_value == HTP_DATA && (c)->in_current_read_offset == (c)->in_current_len && (c)->in_state == O((c)->in_state))))
#define BODY_ENSURES(c, LEFT, NEXT_STATE) \
    __CPROVER_ensures(BODY_P1(c, LEFT)) __CPROVER_ensures(BODY_P2(c, LEFT)) __CPROVER_ensures(BODY_P3(c, LEFT)) \
    __CPROVER_ensures(BODY_P4(c, LEFT)) __CPROVER_ensures(BODY_P5(c, LEFT, NEXT_STATE)) __CPROVER_ensures(CUR_IN_CURSOR(c))

#define BODY_ASSIGNS(c, LEFT) BODY_LOG_ASSIGNS, (c)->in_current_read_offset, (c)->in_current_consume_offset, (c)->in_stream_offset, \
    (c)->in_tx->request_message_len, (c)->in_tx->request_entity_len, (c)->LEFT, (c)->in_state

htp_status_t contract_htp_connp_REQ_BODY_IDENTITY(htp_connp_t *connp)
__CPROVER_requires(CUR_IN(connp) && TX_IN(connp) && !g_in_gap && connp->in_body_data_left > 0 && g_body_n == 0 && RQ_SELF(connp, htp_connp_REQ_BODY_IDENTITY))
__CPROVER_assigns(BODY_ASSIGNS(connp, in_body_data_left))
BODY_ENSURES(connp, in_body_data_left, htp_connp_REQ_FINALIZE)
__CPROVER_ensures(RQ_COMMON_POST(connp))
;
htp_status_t contract_htp_connp_REQ_BODY_CHUNKED_DATA(htp_connp_t *connp)
__CPROVER_requires(CUR_IN(connp) && TX_IN(connp) && !g_in_gap && connp->in_chunked_length > 0 && g_body_n == 0 && RQ_SELF(connp, htp_connp_REQ_BODY_CHUNKED_DATA))
__CPROVER_assigns(BODY_ASSIGNS(connp, in_chunked_length))
BODY_ENSURES(connp, in_chunked_length, htp_connp_REQ_BODY_CHUNKED_DATA_END)
__CPROVER_ensures(RQ_COMMON_POST(connp))
;

/* ---- response body states (C06) ------------------------------------------------------------------ */
#define OAVAIL_OUT(c) (O((c)->out_current_len) - O((c)->out_current_read_offset))
#define RBODY_ASSIGNS(c, LEFT) BODY_LOG_ASSIGNS, (c)->out_current_read_offset, (c)->out_current_consume_offset, (c)->out_stream_offset, \
    (c)->out_tx->response_message_len, (c)->out_tx->response_entity_len, (c)->LEFT, (c)->out_state
/* nothing available: ask for more, nothing moves, nothing delivered */
#define RBODY_P1(c, LEFT) (OAVAIL_OUT(c) == 0 ==> (__CPROVER_return_value == HTP_DATA && g_body_n == O(g_body_n) && \
        (c)->out_current_read_offset == O((c)->out_current_read_offset) && (c)->LEFT == O((c)->LEFT) && \
        (c)->out_tx->response_message_len == O((c)->out_tx->response_message_len)))
/* first (data) delivery is the range [old read, old read + n), n = min(owed, available); message_len grows by n in the sink */
#define RBODY_P4(c, LEFT) ((OAVAIL_OUT(c) > 0 && g_rb_rc1 == HTP_OK) ==> ( \
        (c)->out_current_read_offset == O((c)->out_current_read_offset) + MIN64(O((c)->LEFT), OAVAIL_OUT(c)) && \
        (c)->out_current_consume_offset == O((c)->out_current_consume_offset) + MIN64(O((c)->LEFT), OAVAIL_OUT(c)) && \
        (c)->out_stream_offset == O((c)->out_stream_offset) + MIN64(O((c)->LEFT), OAVAIL_OUT(c)) && \
        (c)->out_tx->response_message_len == O((c)->out_tx->response_message_len) + MIN64(O((c)->LEFT), OAVAIL_OUT(c)) && \
        (c)->LEFT == O((c)->LEFT) - MIN64(O((c)->LEFT), OAVAIL_OUT(c))))

htp_status_t contract_htp_connp_RES_BODY_CHUNKED_DATA(htp_connp_t *connp)
__CPROVER_requires(CUR_OUT(connp) && TX_OUT(connp) && !g_in_gap && connp->out_chunked_length > 0 && g_body_n == 0 && RS_SELF(connp, htp_connp_RES_BODY_CHUNKED_DATA))
__CPROVER_assigns(RBODY_ASSIGNS(connp, out_chunked_length))
__CPROVER_ensures(RBODY_P1(connp, out_chunked_length))
__CPROVER_ensures(OAVAIL_OUT(connp) > 0 ==> (g_body_n == 1 && g_body_ptr == O(connp->out_current_data) + O(connp->out_current_read_offset) &&
    (int64_t) g_body_len == MIN64(O(connp->out_chunked_length), OAVAIL_OUT(connp))))
/* sink refused: its code is returned, cursor and owed count do not move (the sink has already counted the bytes) */
__CPROVER_ensures((OAVAIL_OUT(connp) > 0 && g_body_rc != HTP_OK) ==> (__CPROVER_return_value == g_body_rc &&
    connp->out_current_read_offset == O(connp->out_current_read_offset) && connp->out_chunked_length == O(connp->out_chunked_length)))
__CPROVER_ensures((OAVAIL_OUT(connp) > 0 && g_body_rc == HTP_OK) ==> (
    connp->out_current_read_offset == O(connp->out_current_read_offset) + (int64_t) g_body_len &&
    connp->out_current_consume_offset == O(connp->out_current_consume_offset) + (int64_t) g_body_len &&
    connp->out_stream_offset == O(connp->out_stream_offset) + (int64_t) g_body_len &&
    connp->out_tx->response_message_len == O(connp->out_tx->response_message_len) + (int64_t) g_body_len &&
    connp->out_chunked_length == O(connp->out_chunked_length) - (int64_t) g_body_len &&
    (connp->out_chunked_length == 0 ? (__CPROVER_return_value == HTP_OK && connp->out_state == htp_connp_RES_BODY_CHUNKED_DATA_END)
        : (__CPROVER_return_value == HTP_DATA && connp->out_current_read_offset == connp->out_current_len && connp->out_state == O(connp->out_state)))))
__CPROVER_ensures(RS_COMMON_POST(connp))
;

/* Content-Length delimited response body: as above, plus the end-of-body marker (NULL,0) handed to the sink
 * when the body completes or the stream closes early. */
htp_status_t contract_htp_connp_RES_BODY_IDENTITY_CL_KNOWN(htp_connp_t *connp)
__CPROVER_requires(CUR_OUT(connp) && TX_OUT(connp) && !g_in_gap && connp->out_body_data_left > 0 && g_body_n == 0 && RS_SELF(connp, htp_connp_RES_BODY_IDENTITY_CL_KNOWN))
__CPROVER_assigns(RBODY_ASSIGNS(connp, out_body_data_left))
/* closed stream: only the end marker is delivered, state moves to FINALIZE, cursor untouched */
__CPROVER_ensures(connp->out_status == HTP_STREAM_CLOSED ==> (g_body_n == 1 && g_body_ptr == NULL && g_body_len == 0 &&
    __CPROVER_return_value == g_body_rc && connp->out_state == htp_connp_RES_FINALIZE &&
    connp->out_current_read_offset == O(connp->out_current_read_offset) && connp->out_body_data_left == O(connp->out_body_data_left)))
__CPROVER_ensures(connp->out_status != HTP_STREAM_CLOSED ==> RBODY_P1(connp, out_body_data_left))
/* open stream with data: the cursor, the owed count and the message length move together by what was delivered */
__CPROVER_ensures((connp->out_status != HTP_STREAM_CLOSED && OAVAIL_OUT(connp) > 0) ==> (
    (g_body_n == 1 || g_body_n == 2) &&
    /* not finished: exactly one data delivery, DATA with the chunk exhausted */
    ((g_body_n == 1 && g_body_rc == HTP_OK) ==> (g_body_ptr == O(connp->out_current_data) + O(connp->out_current_read_offset) &&
        (int64_t) g_body_len == OAVAIL_OUT(connp) && OAVAIL_OUT(connp) < O(connp->out_body_data_left) &&
        __CPROVER_return_value == HTP_DATA && connp->out_current_read_offset == connp->out_current_len &&
        connp->out_body_data_left == O(connp->out_body_data_left) - (int64_t) g_body_len &&
        connp->out_stream_offset == O(connp->out_stream_offset) + (int64_t) g_body_len &&
        connp->out_current_consume_offset == O(connp->out_current_consume_offset) + (int64_t) g_body_len &&
        connp->out_tx->response_message_len == O(connp->out_tx->response_message_len) + (int64_t) g_body_len && connp->out_state == O(connp->out_state))) &&
    /* finished: data delivery then the end marker; exactly the owed bytes were taken */
    (g_body_n == 2 ==> (g_body_ptr == NULL && g_body_len == 0 && __CPROVER_return_value == g_body_rc &&
        connp->out_body_data_left == 0 && connp->out_state == htp_connp_RES_FINALIZE &&
        connp->out_current_read_offset == O(connp->out_current_read_offset) + O(connp->out_body_data_left) &&
        connp->out_stream_offset == O(connp->out_stream_offset) + O(connp->out_body_data_left) &&
        connp->out_current_consume_offset == O(connp->out_current_consume_offset) + O(connp->out_body_data_left) &&
        connp->out_tx->response_message_len == O(connp->out_tx->response_message_len) + O(connp->out_body_data_left)))))
__CPROVER_ensures(RS_COMMON_POST(connp))
;

/* close-delimited body: everything available is body */
htp_status_t contract_htp_connp_RES_BODY_IDENTITY_STREAM_CLOSE(htp_connp_t *connp)
__CPROVER_requires(CUR_OUT(connp) && TX_OUT(connp) && !g_in_gap && g_body_n == 0 && RS_SELF(connp, htp_connp_RES_BODY_IDENTITY_STREAM_CLOSE))
__CPROVER_assigns(BODY_LOG_ASSIGNS, connp->out_current_read_offset, connp->out_current_consume_offset, connp->out_stream_offset, connp->out_tx->response_message_len, connp->out_tx->response_entity_len, connp->out_state)
__CPROVER_ensures(OAVAIL_OUT(connp) == 0 ==> (g_body_n == 0 && connp->out_current_read_offset == O(connp->out_current_read_offset)))
__CPROVER_ensures(OAVAIL_OUT(connp) > 0 ==> (g_body_n == 1 && g_body_ptr == O(connp->out_current_data) + O(connp->out_current_read_offset) && (int64_t) g_body_len == OAVAIL_OUT(connp)))
__CPROVER_ensures((OAVAIL_OUT(connp) > 0 && g_body_rc != HTP_OK) ==> (__CPROVER_return_value == g_body_rc && connp->out_current_read_offset == O(connp->out_current_read_offset)))
__CPROVER_ensures((OAVAIL_OUT(connp) == 0 || g_body_rc == HTP_OK) ==> (
    connp->out_current_read_offset == connp->out_current_len &&
    connp->out_current_consume_offset == O(connp->out_current_consume_offset) + OAVAIL_OUT(connp) &&
    connp->out_stream_offset == O(connp->out_stream_offset) + OAVAIL_OUT(connp) &&
    connp->out_tx->response_message_len == O(connp->out_tx->response_message_len) + OAVAIL_OUT(connp) &&
    (connp->out_status == HTP_STREAM_CLOSED ? (__CPROVER_return_value == HTP_OK && connp->out_state == htp_connp_RES_FINALIZE)
                                            : (__CPROVER_return_value == HTP_DATA && connp->out_state == O(connp->out_state)))))
__CPROVER_ensures(RS_COMMON_POST(connp))
;

/* ---- the body sinks themselves (real functions; hook runner and decompressor replaced) ------------ */
#define HOOK_LOG_ASSIGNS g_hook_n, g_hook_ptr, g_hook_len, g_hook_tx, g_hook_rc, g_hook_last
#define HOOK_LOG_POST(d) (g_hook_n == O(g_hook_n) + 1 && g_hook_ptr == (d)->data && g_hook_len == (d)->len && g_hook_tx == (const void *)(d)->tx && \
    g_hook_last == (d)->is_last && g_hook_rc == __CPROVER_return_value)
htp_status_t contract_htp_req_run_hook_body_data(htp_connp_t *connp, htp_tx_data_t *d)
__CPROVER_requires(__CPROVER_r_ok(d, sizeof(*d)) && g_hook_n < 4)
__CPROVER_assigns(HOOK_LOG_ASSIGNS) __CPROVER_ensures(HOOK_LOG_POST(d));
htp_status_t contract_htp_res_run_hook_body_data(htp_connp_t *connp, htp_tx_data_t *d)
__CPROVER_requires(__CPROVER_r_ok(d, sizeof(*d)) && g_hook_n < 4)
__CPROVER_assigns(HOOK_LOG_ASSIGNS) __CPROVER_ensures(HOOK_LOG_POST(d));
/* decompressor entry: arbitrary effect on the entity length only (C07 carries the rest) */
htp_status_t contract_htp_gzip_decompressor_decompress(htp_decompressor_t *drec, htp_tx_data_t *d)
__CPROVER_requires(1) __CPROVER_assigns() __CPROVER_ensures(1);
void contract_htp_tx_req_destroy_decompressors(htp_connp_t *connp) __CPROVER_requires(1) __CPROVER_assigns() __CPROVER_ensures(1);
void contract_htp_tx_res_destroy_decompressors(htp_connp_t *connp) __CPROVER_requires(1) __CPROVER_assigns() __CPROVER_ensures(1);

#define SINK_TX(tx) (__CPROVER_is_fresh(tx, sizeof(htp_tx_t)) && __CPROVER_is_fresh((tx)->connp, sizeof(htp_connp_t)))
htp_status_t contract_real_htp_tx_req_process_body_data_ex(htp_tx_t *tx, const void *data, size_t len)
__CPROVER_requires(SINK_TX(tx) && len <= CHUNK_CAP && tx->request_entity_len >= 0 && tx->request_entity_len <= OFFMAX && g_hook_n == 0)
__CPROVER_requires(tx->request_content_encoding == HTP_COMPRESSION_NONE || tx->request_content_encoding == HTP_COMPRESSION_UNKNOWN)
__CPROVER_assigns(HOOK_LOG_ASSIGNS, tx->request_entity_len)
/* without content coding: the entity length grows by exactly what the callbacks are handed, the callbacks see the caller's range
 * unchanged, for this transaction; (NULL,0) is the end-of-body marker */
__CPROVER_ensures(tx->request_entity_len == O(tx->request_entity_len) + (int64_t) len)
__CPROVER_ensures(g_hook_n == 1 && g_hook_ptr == (const unsigned char *) data && g_hook_len == len && g_hook_tx == (const void *) tx && g_hook_last == (data == NULL && len == 0))
__CPROVER_ensures(__CPROVER_return_value == (g_hook_rc == HTP_OK ? HTP_OK : HTP_ERROR))
/* frame: message length, cursor and parser state are not in the assigns clause */
;
htp_status_t contract_real_htp_tx_res_process_body_data_ex(htp_tx_t *tx, const void *data, size_t len)
__CPROVER_requires(SINK_TX(tx) && len <= CHUNK_CAP && tx->response_entity_len >= 0 && tx->response_entity_len <= OFFMAX && g_hook_n == 0)
__CPROVER_requires(tx->response_message_len >= 0 && tx->response_message_len <= OFFMAX + 2 * CHUNK_CAP)
__CPROVER_requires(tx->response_content_encoding_processing == HTP_COMPRESSION_NONE)
__CPROVER_assigns(HOOK_LOG_ASSIGNS, tx->response_entity_len, tx->response_message_len)
__CPROVER_ensures(tx->response_entity_len == O(tx->response_entity_len) + (int64_t) len)
__CPROVER_ensures(tx->response_message_len == O(tx->response_message_len) + (int64_t) len)
__CPROVER_ensures(g_hook_n == 1 && g_hook_ptr == (const unsigned char *) data && g_hook_len == len && g_hook_tx == (const void *) tx)
__CPROVER_ensures(__CPROVER_return_value == (g_hook_rc == HTP_OK ? HTP_OK : HTP_ERROR))
;

/* ---- chunk trailer line (CRLF after chunk data): consumes through the first LF, every byte counted -- */
#define DATA_END_POST(c, D, LEN, READ, CONS, SOFF, MLEN, STATE, NEXT) ( \
    (c)->READ >= O((c)->READ) && (c)->READ <= (c)->LEN && \
    (c)->CONS == O((c)->CONS) + ((c)->READ - O((c)->READ)) && \
    (c)->SOFF == O((c)->SOFF) + ((c)->READ - O((c)->READ)) && \
    MLEN == O(MLEN) + ((c)->READ - O((c)->READ)) && \
    (__CPROVER_return_value == HTP_OK || __CPROVER_return_value == HTP_DATA) && \
    (__CPROVER_return_value == HTP_OK ==> ((c)->READ > O((c)->READ) && (c)->D[(c)->READ - 1] == LF && (c)->STATE == NEXT)) && \
    (__CPROVER_return_value == HTP_DATA ==> ((c)->READ == (c)->LEN && (c)->STATE == O((c)->STATE))) && \
    /* no LF was skipped: every byte taken before the last one is not LF */ \
    ((gk < CHUNK_CAP && (int64_t) gk >= O((c)->READ) && (int64_t) gk + 1 < (c)->READ) ==> (c)->D[gk] != LF) && \
    ((__CPROVER_return_value == HTP_DATA && gk < CHUNK_CAP && (int64_t) gk >= O((c)->READ) && (int64_t) gk < (c)->READ) ==> (c)->D[gk] != LF))
htp_status_t contract_htp_connp_REQ_BODY_CHUNKED_DATA_END(htp_connp_t *connp)
__CPROVER_requires(CUR_IN(connp) && TX_IN(connp) && !g_in_gap && RQ_SELF(connp, htp_connp_REQ_BODY_CHUNKED_DATA_END))
__CPROVER_assigns(connp->in_next_byte, connp->in_current_read_offset, connp->in_current_consume_offset, connp->in_stream_offset, connp->in_tx->request_message_len, connp->in_state)
__CPROVER_ensures(DATA_END_POST(connp, in_current_data, in_current_len, in_current_read_offset, in_current_consume_offset, in_stream_offset, connp->in_tx->request_message_len, in_state, htp_connp_REQ_BODY_CHUNKED_LENGTH))
__CPROVER_ensures(RQ_COMMON_POST(connp))
;
htp_status_t contract_htp_connp_RES_BODY_CHUNKED_DATA_END(htp_connp_t *connp)
__CPROVER_requires(CUR_OUT(connp) && TX_OUT(connp) && !g_in_gap && RS_SELF(connp, htp_connp_RES_BODY_CHUNKED_DATA_END))
__CPROVER_assigns(connp->out_next_byte, connp->out_current_read_offset, connp->out_current_consume_offset, connp->out_stream_offset, connp->out_tx->response_message_len, connp->out_state)
__CPROVER_ensures(DATA_END_POST(connp, out_current_data, out_current_len, out_current_read_offset, out_current_consume_offset, out_stream_offset, connp->out_tx->response_message_len, out_state, htp_connp_RES_BODY_CHUNKED_LENGTH))
__CPROVER_ensures(RS_COMMON_POST(connp))
;

/* ==== request driver (C09, C16) ===================================================================== */
/* The contract every request state function is replaced by when the DRIVER is verified.  Each state
 * function's own enforced contract contains these clauses (macro RQ_COMMON_*), so enforced => shared. */
/* a request transaction is attached in every state except IDLE and the HTTP/0.9 drain state */
/* make every state function address-taken in this TU, so that CBMC's function-pointer removal knows the full target set */
int (*v_all_states[])(htp_connp_t *) = { htp_connp_REQ_IDLE, htp_connp_REQ_LINE, htp_connp_REQ_PROTOCOL, htp_connp_REQ_HEADERS,
    htp_connp_REQ_CONNECT_CHECK, htp_connp_REQ_CONNECT_WAIT_RESPONSE, htp_connp_REQ_CONNECT_PROBE_DATA, htp_connp_REQ_BODY_DETERMINE,
    htp_connp_REQ_BODY_IDENTITY, htp_connp_REQ_BODY_CHUNKED_LENGTH, htp_connp_REQ_BODY_CHUNKED_DATA, htp_connp_REQ_BODY_CHUNKED_DATA_END,
    htp_connp_REQ_FINALIZE, htp_connp_REQ_IGNORE_DATA_AFTER_HTTP_0_9, htp_connp_RES_IDLE, htp_connp_RES_LINE, htp_connp_RES_HEADERS,
    htp_connp_RES_BODY_DETERMINE, htp_connp_RES_BODY_IDENTITY_CL_KNOWN, htp_connp_RES_BODY_IDENTITY_STREAM_CLOSE, htp_connp_RES_BODY_CHUNKED_LENGTH,
    htp_connp_RES_BODY_CHUNKED_DATA, htp_connp_RES_BODY_CHUNKED_DATA_END, htp_connp_RES_FINALIZE };
/* personality hooks reached through cfg function pointers: make the generic implementations known to the TU */
htp_status_t (*v_hdr_fns[])(htp_connp_t *, unsigned char *, size_t) = { htp_process_request_header_generic, htp_process_response_header_generic };
htp_status_t (*v_line_fns[])(htp_connp_t *) = { htp_parse_request_line_generic, htp_parse_response_line_generic };
htp_status_t contract_req_state(htp_connp_t *connp)
__CPROVER_requires(__CPROVER_rw_ok(connp, sizeof(*connp)) && CUR_IN_CURSOR(connp) && IS_REQ_STATE(connp->in_state))
__CPROVER_requires(connp->in_status != HTP_STREAM_STOP && connp->in_status != HTP_STREAM_ERROR && (connp->in_tx != NULL || connp->in_state == htp_connp_REQ_IDLE || connp->in_state == htp_connp_REQ_IGNORE_DATA_AFTER_HTTP_0_9))
__CPROVER_assigns(RQ_STATE_FRAME(connp))
/* g_state_calls is a sticky flag: 0 = no state function has run since the harness cleared it */
__CPROVER_ensures(g_state_calls == 1)
__CPROVER_ensures(RQ_COMMON_POST(connp))
;
/* helpers of the driver, replaced: they run callbacks (any of OK / STOP / ERROR) and touch only receiver bookkeeping */
htp_status_t contract_htp_req_handle_state_change(htp_connp_t *connp)
__CPROVER_requires(__CPROVER_rw_ok(connp, sizeof(*connp)))
__CPROVER_assigns(connp->in_state_previous, connp->in_data_receiver_hook, connp->in_current_receiver_offset)
__CPROVER_ensures(connp->in_current_receiver_offset == O(connp->in_current_receiver_offset) || connp->in_current_receiver_offset == connp->in_current_read_offset)
__CPROVER_ensures(__CPROVER_return_value == HTP_OK || __CPROVER_return_value == HTP_STOP || __CPROVER_return_value == HTP_ERROR)
;
htp_status_t contract_htp_connp_req_receiver_send_data(htp_connp_t *connp, int is_last)
__CPROVER_requires(__CPROVER_rw_ok(connp, sizeof(*connp)))
__CPROVER_assigns(connp->in_current_receiver_offset)
__CPROVER_ensures(connp->in_current_receiver_offset == O(connp->in_current_receiver_offset) || connp->in_current_receiver_offset == connp->in_current_read_offset)
;
/* buffering of the unconsumed tail (enforced on the real function by unit htp_connp_req_buffer, C10) */
htp_status_t contract_site_htp_connp_req_buffer(htp_connp_t *connp)
__CPROVER_requires(__CPROVER_rw_ok(connp, sizeof(*connp)))
__CPROVER_assigns(connp->in_buf, connp->in_buf_size, connp->in_current_consume_offset)
__CPROVER_ensures(__CPROVER_return_value == HTP_OK || __CPROVER_return_value == HTP_ERROR)
__CPROVER_ensures(__CPROVER_return_value == HTP_OK ==> (connp->in_current_consume_offset == connp->in_current_read_offset || connp->in_current_consume_offset == O(connp->in_current_consume_offset)))
__CPROVER_ensures(__CPROVER_return_value != HTP_OK ==> connp->in_current_consume_offset == O(connp->in_current_consume_offset))
;
htp_status_t contract_site_htp_tx_state_request_complete(htp_tx_t *tx)
__CPROVER_requires(tx != NULL)
__CPROVER_assigns(g_txstate_n)
__CPROVER_ensures(g_txstate_n == 1)
__CPROVER_ensures(__CPROVER_return_value == HTP_OK || __CPROVER_return_value == HTP_STOP || __CPROVER_return_value == HTP_ERROR)
;

#define STREAM_STATE_OK(s) ((s) == HTP_STREAM_NEW || (s) == HTP_STREAM_OPEN || (s) == HTP_STREAM_CLOSED || (s) == HTP_STREAM_ERROR || \
    (s) == HTP_STREAM_TUNNEL || (s) == HTP_STREAM_DATA_OTHER || (s) == HTP_STREAM_STOP || (s) == HTP_STREAM_DATA)
int contract_htp_connp_req_data(htp_connp_t *connp, const htp_time_t *timestamp, const void *data, size_t len)
__CPROVER_requires(__CPROVER_is_fresh(connp, sizeof(*connp)) && __CPROVER_is_fresh(connp->conn, sizeof(htp_conn_t)))
__CPROVER_requires(timestamp == NULL || __CPROVER_is_fresh(timestamp, sizeof(*timestamp)))
__CPROVER_requires(len <= CHUNK_CAP && (g_in_gap ? data == NULL : __CPROVER_is_fresh(data, len)))
__CPROVER_requires(IS_REQ_STATE(connp->in_state) && STREAM_STATE_OK(connp->in_status) && STREAM_STATE_OK(connp->out_status))
__CPROVER_requires(connp->in_stream_offset >= 0 && connp->in_stream_offset <= OFFMAX && connp->conn->in_data_counter >= 0 && connp->conn->in_data_counter <= OFFMAX)
__CPROVER_requires(g_state_calls == 0 && g_txstate_n == 0 && connp->in_chunk_count < ((size_t) 1 << 62))
__CPROVER_assigns(RQ_STATE_FRAME(connp), g_txstate_n, connp->conn->in_data_counter)
/* 1. documented stream states only */
__CPROVER_ensures(__CPROVER_return_value == HTP_STREAM_DATA || __CPROVER_return_value == HTP_STREAM_DATA_OTHER || __CPROVER_return_value == HTP_STREAM_STOP ||
                  __CPROVER_return_value == HTP_STREAM_ERROR || __CPROVER_return_value == HTP_STREAM_TUNNEL || __CPROVER_return_value == HTP_STREAM_CLOSED)
/* 2. sticky failure: STOP / ERROR on entry is reported again, no state function and no transition runs, nothing but the log is touched */
__CPROVER_ensures((O(connp->in_status) == HTP_STREAM_STOP || O(connp->in_status) == HTP_STREAM_ERROR) ==> (
    __CPROVER_return_value == (int) O(connp->in_status) && connp->in_status == O(connp->in_status) && g_state_calls == 0 && g_txstate_n == 0 &&
    connp->in_state == O(connp->in_state) && connp->in_current_read_offset == O(connp->in_current_read_offset) && connp->conn->in_data_counter == O(connp->conn->in_data_counter)))
/* 3. DATA means the whole chunk was consumed; DATA_OTHER means strictly fewer, resume at the reported count */
__CPROVER_ensures(__CPROVER_return_value == HTP_STREAM_DATA ==> (connp->in_current_read_offset == (int64_t) len && connp->in_status == HTP_STREAM_DATA))
__CPROVER_ensures(__CPROVER_return_value == HTP_STREAM_DATA_OTHER ==> (connp->in_current_read_offset < (int64_t) len && connp->in_current_read_offset >= 0 && connp->in_status == HTP_STREAM_DATA_OTHER))
/* 4. STOP / ERROR become sticky */
__CPROVER_ensures((__CPROVER_return_value == HTP_STREAM_STOP || __CPROVER_return_value == HTP_STREAM_ERROR) ==> connp->in_status == (enum htp_stream_state_t) __CPROVER_return_value)
/* 5. tunnel mode on entry: TUNNEL reported, no state function runs (C16); the bytes are still counted */
/* (a parser without a request transaction outside IDLE is rejected by the sanity guard first: HTTP/0.9 drain state) */
__CPROVER_ensures((O(connp->in_status) == HTP_STREAM_TUNNEL && len > 0 && (O(connp->in_tx) != NULL || O(connp->in_state) == htp_connp_REQ_IDLE)) ==> (__CPROVER_return_value == HTP_STREAM_TUNNEL && g_state_calls == 0 && g_txstate_n == 0 && connp->in_status == HTP_STREAM_TUNNEL))
/* 6. byte counter: every call that passes the entry guards adds exactly len */
__CPROVER_ensures((O(connp->in_status) != HTP_STREAM_STOP && O(connp->in_status) != HTP_STREAM_ERROR && (O(connp->in_tx) != NULL || O(connp->in_state) == htp_connp_REQ_IDLE) &&
                   (len > 0 || O(connp->in_status) == HTP_STREAM_CLOSED)) ==> connp->conn->in_data_counter == O(connp->conn->in_data_counter) + (int64_t) len)
/* 7. the parser never un-suspends itself: the response side's DATA_OTHER is cleared only by offering request data */
__CPROVER_ensures(IS_REQ_STATE(connp->in_state))
;
/* ==== response driver (C09, C16) ===================================================================== */
/* The contract every response state function is replaced by when the DRIVER is verified.  Each state
 * function's own enforced contract contains these clauses (macro RS_COMMON_*), so enforced => shared. */
/* a request transaction is attached in every state except IDLE and the HTTP/0.9 drain state */
htp_status_t contract_res_state(htp_connp_t *connp)
__CPROVER_requires(__CPROVER_rw_ok(connp, sizeof(*connp)) && CUR_OUT_CURSOR(connp) && IS_RES_STATE(connp->out_state))
__CPROVER_requires(connp->out_status != HTP_STREAM_STOP && connp->out_status != HTP_STREAM_ERROR && (connp->out_tx != NULL || connp->out_state == htp_connp_RES_IDLE || connp->out_state == htp_connp_RES_IDLE))
__CPROVER_assigns(RS_STATE_FRAME(connp))
/* g_state_calls is a sticky flag: 0 = no state function has run since the harness cleared it */
__CPROVER_ensures(g_state_calls == 1)
__CPROVER_ensures(RS_COMMON_POST(connp))
;
/* helpers of the driver, replaced: they run callbacks (any of OK / STOP / ERROR) and touch only receiver bookkeeping */
htp_status_t contract_htp_res_handle_state_change(htp_connp_t *connp)
__CPROVER_requires(__CPROVER_rw_ok(connp, sizeof(*connp)))
__CPROVER_assigns(connp->out_state_previous, connp->out_data_receiver_hook, connp->out_current_receiver_offset)
__CPROVER_ensures(connp->out_current_receiver_offset == O(connp->out_current_receiver_offset) || connp->out_current_receiver_offset == connp->out_current_read_offset)
__CPROVER_ensures(__CPROVER_return_value == HTP_OK || __CPROVER_return_value == HTP_STOP || __CPROVER_return_value == HTP_ERROR)
;
htp_status_t contract_htp_connp_res_receiver_send_data(htp_connp_t *connp, int is_last)
__CPROVER_requires(__CPROVER_rw_ok(connp, sizeof(*connp)))
__CPROVER_assigns(connp->out_current_receiver_offset)
__CPROVER_ensures(connp->out_current_receiver_offset == O(connp->out_current_receiver_offset) || connp->out_current_receiver_offset == connp->out_current_read_offset)
;
/* buffering of the unconsumed tail (enforced on the real function by unit htp_connp_res_buffer, C10) */
htp_status_t contract_site_htp_connp_res_buffer(htp_connp_t *connp)
__CPROVER_requires(__CPROVER_rw_ok(connp, sizeof(*connp)))
__CPROVER_assigns(connp->out_buf, connp->out_buf_size, connp->out_current_consume_offset)
__CPROVER_ensures(__CPROVER_return_value == HTP_OK || __CPROVER_return_value == HTP_ERROR)
__CPROVER_ensures(__CPROVER_return_value == HTP_OK ==> (connp->out_current_consume_offset == connp->out_current_read_offset || connp->out_current_consume_offset == O(connp->out_current_consume_offset)))
__CPROVER_ensures(__CPROVER_return_value != HTP_OK ==> connp->out_current_consume_offset == O(connp->out_current_consume_offset))
;
htp_status_t contract_site_htp_tx_state_response_complete_ex(htp_tx_t *tx, int hybrid_mode)
__CPROVER_requires(tx != NULL)
__CPROVER_assigns(g_txstate_n)
__CPROVER_ensures(g_txstate_n == 1)
__CPROVER_ensures(__CPROVER_return_value == HTP_OK || __CPROVER_return_value == HTP_STOP || __CPROVER_return_value == HTP_ERROR || __CPROVER_return_value == HTP_DATA_OTHER)
;

int contract_htp_connp_res_data(htp_connp_t *connp, const htp_time_t *timestamp, const void *data, size_t len)
__CPROVER_requires(__CPROVER_is_fresh(connp, sizeof(*connp)) && __CPROVER_is_fresh(connp->conn, sizeof(htp_conn_t)))
__CPROVER_requires(timestamp == NULL || __CPROVER_is_fresh(timestamp, sizeof(*timestamp)))
__CPROVER_requires(len <= CHUNK_CAP && (g_in_gap ? data == NULL : __CPROVER_is_fresh(data, len)))
__CPROVER_requires(IS_RES_STATE(connp->out_state) && STREAM_STATE_OK(connp->out_status) && STREAM_STATE_OK(connp->out_status))
__CPROVER_requires(connp->out_stream_offset >= 0 && connp->out_stream_offset <= OFFMAX && connp->conn->out_data_counter >= 0 && connp->conn->out_data_counter <= OFFMAX)
__CPROVER_requires(g_state_calls == 0 && g_txstate_n == 0)
__CPROVER_assigns(RS_STATE_FRAME(connp), g_txstate_n, connp->conn->out_data_counter)
/* 1. documented stream states only */
__CPROVER_ensures(__CPROVER_return_value == HTP_STREAM_DATA || __CPROVER_return_value == HTP_STREAM_DATA_OTHER || __CPROVER_return_value == HTP_STREAM_STOP ||
                  __CPROVER_return_value == HTP_STREAM_ERROR || __CPROVER_return_value == HTP_STREAM_TUNNEL || __CPROVER_return_value == HTP_STREAM_CLOSED)
/* 2. sticky failure: STOP / ERROR on entry is reported again, no state function and no transition runs, nothing but the log is touched */
__CPROVER_ensures((O(connp->out_status) == HTP_STREAM_STOP || O(connp->out_status) == HTP_STREAM_ERROR) ==> (
    __CPROVER_return_value == (int) O(connp->out_status) && connp->out_status == O(connp->out_status) && g_state_calls == 0 && g_txstate_n == 0 &&
    connp->out_state == O(connp->out_state) && connp->out_current_read_offset == O(connp->out_current_read_offset) && connp->conn->out_data_counter == O(connp->conn->out_data_counter)))
/* 3. DATA means the whole chunk was consumed; DATA_OTHER means strictly fewer, resume at the reported count */
__CPROVER_ensures(__CPROVER_return_value == HTP_STREAM_DATA ==> (connp->out_current_read_offset == (int64_t) len && connp->out_status == HTP_STREAM_DATA))
__CPROVER_ensures(__CPROVER_return_value == HTP_STREAM_DATA_OTHER ==> (connp->out_current_read_offset < (int64_t) len && connp->out_current_read_offset >= 0 && connp->out_status == HTP_STREAM_DATA_OTHER))
/* 4. STOP / ERROR become sticky */
__CPROVER_ensures((__CPROVER_return_value == HTP_STREAM_STOP || __CPROVER_return_value == HTP_STREAM_ERROR) ==> connp->out_status == (enum htp_stream_state_t) __CPROVER_return_value)
/* 5. tunnel mode on entry: TUNNEL reported, no state function runs (C16); the bytes are still counted */
/* (a parser without a request transaction outside IDLE is rejected by the sanity guard first: HTTP/0.9 drain state) */
__CPROVER_ensures((O(connp->out_status) == HTP_STREAM_TUNNEL && len > 0 && (O(connp->out_tx) != NULL || O(connp->out_state) == htp_connp_RES_IDLE)) ==> (__CPROVER_return_value == HTP_STREAM_TUNNEL && g_state_calls == 0 && g_txstate_n == 0 && connp->out_status == HTP_STREAM_TUNNEL))
/* 6. byte counter: every call that passes the entry guards adds exactly len */
__CPROVER_ensures((O(connp->out_status) != HTP_STREAM_STOP && O(connp->out_status) != HTP_STREAM_ERROR && (O(connp->out_tx) != NULL || O(connp->out_state) == htp_connp_RES_IDLE) &&
                   (len > 0 || O(connp->out_status) == HTP_STREAM_CLOSED)) ==> connp->conn->out_data_counter == O(connp->conn->out_data_counter) + (int64_t) len)
__CPROVER_ensures(IS_RES_STATE(connp->out_state))
;

/* ==== stubs shared by the line-oriented states ======================================================= */
/* region handed to the line logic: a readable range of *len bytes (L1 of C03 is enforced on the real function) */
htp_status_t contract_htp_connp_req_consolidate_data(htp_connp_t *connp, unsigned char **data, size_t *len)
__CPROVER_requires(__CPROVER_rw_ok(connp, sizeof(*connp)) && __CPROVER_w_ok(data, sizeof(*data)) && __CPROVER_w_ok(len, sizeof(*len)))
__CPROVER_assigns(g_consol_n, g_consol_len, *data, *len, connp->in_buf, connp->in_buf_size, connp->in_current_consume_offset)
__CPROVER_ensures(g_consol_n == 1 && (__CPROVER_return_value == HTP_OK ==> g_consol_len == *len))
__CPROVER_ensures(__CPROVER_return_value == HTP_OK || __CPROVER_return_value == HTP_ERROR)
__CPROVER_ensures(__CPROVER_return_value == HTP_OK ==> (*len <= LINE_CAP && __CPROVER_is_fresh(*data, *len)))
/* on failure the out-parameters are not written */
__CPROVER_ensures(__CPROVER_return_value != HTP_OK ==> (*data == O(*data) && *len == O(*len)))
__CPROVER_ensures(connp->in_current_consume_offset == O(connp->in_current_consume_offset) || connp->in_current_consume_offset == connp->in_current_read_offset)
;
void contract_htp_connp_req_clear_buffer(htp_connp_t *connp)
__CPROVER_requires(__CPROVER_rw_ok(connp, sizeof(*connp)))
__CPROVER_assigns(g_clear_n, connp->in_buf, connp->in_buf_size, connp->in_current_consume_offset)
__CPROVER_ensures(g_clear_n == 1 && connp->in_buf == NULL && connp->in_buf_size == 0 && connp->in_current_consume_offset == connp->in_current_read_offset)
;
bstr *contract_site_bstr_dup_mem(const void *data, size_t len)
__CPROVER_requires(len <= LINE_CAP && __CPROVER_r_ok(data, len))
__CPROVER_assigns()
__CPROVER_ensures(__CPROVER_return_value == NULL || (__CPROVER_is_fresh(__CPROVER_return_value, sizeof(bstr) + len) && __CPROVER_return_value->len == len && __CPROVER_return_value->size == len && __CPROVER_return_value->realptr == NULL))
;
int contract_htp_convert_method_to_number(bstr *method)
__CPROVER_requires(method != NULL) __CPROVER_assigns() __CPROVER_ensures(__CPROVER_return_value >= HTP_M_UNKNOWN && __CPROVER_return_value <= HTP_M_INVALID);

/* request-side transaction transitions as seen from a state function: they may move the request state machine, detach the
 * transaction, run callbacks (OK / STOP / ERROR) and even free the transaction (auto-destroy); they never touch the cursor. */
#define TXS_REQ_POST(c) (g_txstate_n == 1 && CUR_IN_CURSOR(c) && \
    (c)->in_current_read_offset == O((c)->in_current_read_offset) && (c)->in_current_consume_offset == O((c)->in_current_consume_offset) && \
    (c)->in_current_len == O((c)->in_current_len) && (c)->in_current_data == O((c)->in_current_data) && (c)->in_stream_offset == O((c)->in_stream_offset) && \
    (c)->conn == O((c)->conn) && (c)->cfg == O((c)->cfg) && (c)->in_chunk_count == O((c)->in_chunk_count) && (c)->in_status == O((c)->in_status) && \
    (c)->in_buf == O((c)->in_buf) && (c)->in_buf_size == O((c)->in_buf_size) && \
    IS_REQ_STATE((c)->in_state) && REQ_TX_INV(c) && \
    (__CPROVER_return_value == HTP_OK || __CPROVER_return_value == HTP_STOP || __CPROVER_return_value == HTP_ERROR))
htp_status_t contract_stub_htp_tx_state_request_complete(htp_tx_t *tx)
__CPROVER_requires(tx != NULL)
__CPROVER_requires(__CPROVER_rw_ok(tx, sizeof(*tx)))
__CPROVER_requires(__CPROVER_rw_ok(tx->connp, sizeof(htp_connp_t)))
__CPROVER_requires(CUR_IN_CURSOR(tx->connp))
__CPROVER_assigns(g_txstate_n, g_txstate_which, __CPROVER_object_whole(tx->connp), __CPROVER_object_whole(tx))
__CPROVER_frees(tx)
__CPROVER_ensures(TXS_REQ_POST(O(tx->connp)) && g_txstate_which == 1)
/* on success the request side is detached and idle (or draining after HTTP/0.9) */
__CPROVER_ensures(__CPROVER_return_value == HTP_OK ==> (O(tx->connp)->in_tx == NULL && (O(tx->connp)->in_state == htp_connp_REQ_IDLE || O(tx->connp)->in_state == htp_connp_REQ_IGNORE_DATA_AFTER_HTTP_0_9)))
__CPROVER_ensures(__CPROVER_return_value != HTP_OK ==> (O(tx->connp)->in_tx == O(tx->connp->in_tx) && O(tx->connp)->in_state == O(tx->connp->in_state)))
;

/* ==== CONNECT handling on the request side (C16) ======================================================= */
#define RQ_PRE(c, SELF) (CUR_IN(c) && TX_IN(c) && !g_in_gap && (c)->in_state == SELF && (c)->in_status != HTP_STREAM_STOP && (c)->in_status != HTP_STREAM_ERROR)
htp_status_t contract_htp_connp_REQ_CONNECT_CHECK(htp_connp_t *connp)
__CPROVER_requires(RQ_PRE(connp, htp_connp_REQ_CONNECT_CHECK))
/* frame: the cursor is not assignable here, so a CONNECT request consumes nothing beyond itself */
__CPROVER_assigns(connp->in_state, connp->in_status)
__CPROVER_ensures(connp->in_tx->request_method_number == HTP_M_CONNECT
    ? (__CPROVER_return_value == HTP_DATA_OTHER && connp->in_state == htp_connp_REQ_CONNECT_WAIT_RESPONSE && connp->in_status == HTP_STREAM_DATA_OTHER)
    : (__CPROVER_return_value == HTP_OK && connp->in_state == htp_connp_REQ_BODY_DETERMINE && connp->in_status == O(connp->in_status)))
__CPROVER_ensures(RQ_COMMON_POST(connp))
;
htp_status_t contract_htp_connp_REQ_CONNECT_WAIT_RESPONSE(htp_connp_t *connp)
__CPROVER_requires(RQ_PRE(connp, htp_connp_REQ_CONNECT_WAIT_RESPONSE))
__CPROVER_assigns(connp->in_state)
/* C16 "consumes nothing beyond that request until the response has been seen": until the status line of a FINAL response has been seen the
 * request side stays suspended and nothing at all changes.  An interim "100 Continue" is not the answer (the response side restarts at
 * RES_LINE after it and resets the progress to LINE): while its header block is still incomplete (progress HEADERS, status 100) the
 * request side must keep waiting, whatever the chunking of the response stream - finding c16_connect_interim_100, fixed. */
#define CONNECT_ANSWER_SEEN(c) ((c)->in_tx->response_progress > HTP_RESPONSE_LINE && (c)->in_tx->response_status_number != 100)
__CPROVER_ensures(!CONNECT_ANSWER_SEEN(connp) ==> (__CPROVER_return_value == HTP_DATA_OTHER && connp->in_state == O(connp->in_state)))
__CPROVER_ensures(CONNECT_ANSWER_SEEN(connp) ==> (__CPROVER_return_value == HTP_OK &&
    connp->in_state == ((connp->in_tx->response_status_number >= 200 && connp->in_tx->response_status_number <= 299) ? htp_connp_REQ_CONNECT_PROBE_DATA : htp_connp_REQ_FINALIZE)))
__CPROVER_ensures(RQ_COMMON_POST(connp))
;
/* probing the first line after an accepted CONNECT: the pending bytes are never discarded (no clear_buffer), a known
 * method hands over to normal request completion, anything else puts BOTH directions into tunnel mode */
htp_status_t contract_htp_connp_REQ_CONNECT_PROBE_DATA(htp_connp_t *connp)
__CPROVER_requires(RQ_PRE(connp, htp_connp_REQ_CONNECT_PROBE_DATA) && g_clear_n == 0 && g_txstate_n == 0 && g_consol_n == 0)
__CPROVER_assigns(g_clear_n, g_consol_n, g_consol_len, g_txstate_n, g_txstate_which, __CPROVER_object_whole(connp), __CPROVER_object_whole(connp->in_tx))
__CPROVER_frees(connp->in_tx)
__CPROVER_ensures(g_clear_n == 0)
__CPROVER_ensures((__CPROVER_return_value == HTP_OK && g_txstate_n == 0) ==> (connp->in_status == HTP_STREAM_TUNNEL && connp->out_status == HTP_STREAM_TUNNEL && connp->in_state == O(connp->in_state)))
__CPROVER_ensures((__CPROVER_return_value == HTP_DATA_BUFFER) ==> (g_txstate_n == 0 && g_consol_n == 0 && connp->in_status == O(connp->in_status) && connp->out_status == O(connp->out_status) &&
    connp->in_current_consume_offset == O(connp->in_current_consume_offset)))
__CPROVER_ensures(RQ_COMMON_POST(connp))
;

/* ==== response idle state: pairing of responses with requests (C04) =================================== */
#include "c10_tx.h"
#define TXS_RES_KEEP(c) (CUR_OUT_CURSOR(c) && \
    (c)->out_current_read_offset == O((c)->out_current_read_offset) && (c)->out_current_consume_offset == O((c)->out_current_consume_offset) && \
    (c)->out_current_len == O((c)->out_current_len) && (c)->out_current_data == O((c)->out_current_data) && (c)->out_stream_offset == O((c)->out_stream_offset) && \
    (c)->conn == O((c)->conn) && (c)->cfg == O((c)->cfg) && (c)->out_next_tx_index == O((c)->out_next_tx_index) && (c)->out_status == O((c)->out_status) && \
    (c)->in_status == O((c)->in_status) && (c)->in_state == O((c)->in_state) && (c)->in_tx == O((c)->in_tx) && \
    (c)->out_content_length == O((c)->out_content_length) && (c)->out_buf == O((c)->out_buf) && (c)->out_buf_size == O((c)->out_buf_size) && \
    IS_RES_STATE((c)->out_state))
htp_status_t contract_stub_htp_tx_state_response_start(htp_tx_t *tx)
__CPROVER_requires(tx != NULL && __CPROVER_rw_ok(tx, sizeof(*tx)) && __CPROVER_rw_ok(tx->connp, sizeof(htp_connp_t)) && CUR_OUT_CURSOR(tx->connp))
__CPROVER_assigns(g_txstate_n, g_txstate_which, __CPROVER_object_whole(tx->connp), __CPROVER_object_whole(tx))
__CPROVER_ensures(g_txstate_n == 1 && g_txstate_which == 11 && TXS_RES_KEEP(O(tx->connp)) && O(tx->connp)->out_tx == tx && tx->connp == O(tx->connp))
__CPROVER_ensures(__CPROVER_return_value == HTP_OK || __CPROVER_return_value == HTP_STOP || __CPROVER_return_value == HTP_ERROR)
__CPROVER_ensures(__CPROVER_return_value == HTP_OK ==> (O(tx->connp)->out_state == htp_connp_RES_LINE || O(tx->connp)->out_state == htp_connp_RES_BODY_IDENTITY_STREAM_CLOSE))
__CPROVER_ensures(__CPROVER_return_value != HTP_OK ==> O(tx->connp)->out_state == O(tx->connp->out_state))
;
/* creation as seen from RES_IDLE (orphan response): NULL, or a fresh transaction appended last that also becomes in_tx */
htp_tx_t *contract_site_htp_connp_tx_create(htp_connp_t *connp)
__CPROVER_requires(__CPROVER_rw_ok(connp, sizeof(*connp)) && __CPROVER_rw_ok(TXL(connp), sizeof(htp_list_array_t)) && TXL(connp)->current_size < LCAP)
__CPROVER_assigns(g_create_n, TXL(connp)->current_size, connp->conn->flags, connp->in_tx, connp->in_content_length, connp->in_body_data_left, connp->in_chunk_request_index)
__CPROVER_ensures(g_create_n == 1)
__CPROVER_ensures(__CPROVER_return_value == NULL ==> (TXL(connp)->current_size == O(TXL(connp)->current_size) && connp->in_tx == O(connp->in_tx)))
__CPROVER_ensures(__CPROVER_return_value != NULL ==> (__CPROVER_is_fresh(__CPROVER_return_value, sizeof(htp_tx_t)) && connp->in_tx == __CPROVER_return_value &&
    TXL(connp)->current_size == O(TXL(connp)->current_size) + 1 && __CPROVER_return_value->index == O(TXL(connp)->current_size) &&
    __CPROVER_pointer_equals(__CPROVER_return_value->connp, connp) && __CPROVER_return_value->parsed_uri == NULL && __CPROVER_return_value->request_uri == NULL))
;
htp_uri_t *contract_htp_uri_alloc(void)
__CPROVER_assigns()
__CPROVER_ensures(__CPROVER_return_value == NULL || (__CPROVER_is_fresh(__CPROVER_return_value, sizeof(htp_uri_t)) && __CPROVER_return_value->path == NULL))
;
bstr *contract_bstr_dup_c(const char *cstr)
__CPROVER_requires(cstr != NULL) __CPROVER_assigns()
__CPROVER_ensures(__CPROVER_return_value == NULL || __CPROVER_is_fresh(__CPROVER_return_value, sizeof(bstr) + 32))
;
/* response start as seen from RES_IDLE: RES_IDLE has already attached the transaction; the call runs callbacks and moves out_state,
 * neither of which RES_IDLE's pairing post-condition speaks about (the stub therefore leaves the parser untouched) */
htp_status_t contract_site_htp_tx_state_response_start(htp_tx_t *tx)
__CPROVER_requires(tx != NULL)
__CPROVER_assigns(g_txstate_n, g_txstate_which)
__CPROVER_ensures(g_txstate_n == 1 && (__CPROVER_return_value == HTP_OK || __CPROVER_return_value == HTP_STOP || __CPROVER_return_value == HTP_ERROR))
;
htp_status_t contract_site2_htp_tx_state_request_complete(htp_tx_t *tx)
__CPROVER_requires(1)
__CPROVER_assigns(g_txstate_n)
__CPROVER_ensures(g_txstate_n == 1)
;

htp_status_t contract_htp_connp_RES_IDLE(htp_connp_t *connp)
__CPROVER_requires(CUR_OUT(connp) && !g_in_gap && RS_SELF(connp, htp_connp_RES_IDLE) && __CPROVER_is_fresh(connp->conn, sizeof(htp_conn_t)) && WF_LIST_PRE(TXL(connp)))
__CPROVER_requires(g_create_n == 0 && g_txstate_n == 0 && connp->out_next_tx_index < ((size_t) 1 << 62) && TXL(connp)->current_size < LCAP && gk < TXL(connp)->max_size)
__CPROVER_assigns(g_create_n, g_txstate_n, g_txstate_which, __CPROVER_object_whole(connp), TXL(connp)->current_size, connp->conn->flags)
/* no byte available: wait, nothing changes */
__CPROVER_ensures(O(connp->out_current_read_offset) >= O(connp->out_current_len) ==> (__CPROVER_return_value == HTP_DATA && g_create_n == 0 && g_txstate_n == 0 &&
    connp->out_next_tx_index == O(connp->out_next_tx_index) && connp->out_tx == O(connp->out_tx) && connp->out_state == O(connp->out_state)))
/* a response begins: it is attached to the transaction at position out_next_tx_index (arrival order of requests), and the index advances by one.
 * Stated for the witness slot gk: if gk is that position and the slot holds a live request, THAT transaction becomes out_tx and no transaction is created. */
__CPROVER_ensures((O(connp->out_current_read_offset) < O(connp->out_current_len) && gk == O(connp->out_next_tx_index) && gk < O(TXL(connp)->current_size) && O(VIEW(TXL(connp), gk)) != NULL) ==>
    (g_create_n == 0 && connp->out_tx == O(VIEW(TXL(connp), gk)) && connp->out_next_tx_index == O(connp->out_next_tx_index) + 1 &&
     connp->in_tx == O(connp->in_tx) && connp->in_state == O(connp->in_state) && TXL(connp)->current_size == O(TXL(connp)->current_size)))
/* no request is waiting at that position: the response gets a transaction of its own, appended last (never an existing, unrelated one) */
__CPROVER_ensures((O(connp->out_current_read_offset) < O(connp->out_current_len) && (O(connp->out_next_tx_index) >= O(TXL(connp)->current_size))) ==>
    (g_create_n == 1 && (__CPROVER_return_value == HTP_ERROR || (connp->out_tx != NULL && connp->out_tx == connp->in_tx && connp->out_tx->index == O(TXL(connp)->current_size) &&
     connp->out_next_tx_index == O(connp->out_next_tx_index) + 1 && connp->in_state == htp_connp_REQ_FINALIZE))))
__CPROVER_ensures(RS_COMMON_POST(connp))
;

/* ==== small request states ============================================================================ */
/* framing decision -> body state; establishes the facts the body states require (bytes owed > 0) */
htp_status_t contract_htp_connp_REQ_BODY_DETERMINE(htp_connp_t *connp)
__CPROVER_requires(RQ_PRE(connp, htp_connp_REQ_BODY_DETERMINE))
/* established by header processing (C11 unit): identity framing comes with a non-negative length */
__CPROVER_requires(connp->in_tx->request_transfer_coding == HTP_CODING_IDENTITY ==> connp->in_tx->request_content_length >= 0)
__CPROVER_assigns(connp->in_state, connp->in_content_length, connp->in_body_data_left, connp->in_tx->request_progress)
__CPROVER_ensures(connp->in_tx->request_transfer_coding == HTP_CODING_CHUNKED ==> (__CPROVER_return_value == HTP_OK && connp->in_state == htp_connp_REQ_BODY_CHUNKED_LENGTH && connp->in_tx->request_progress == HTP_REQUEST_BODY))
__CPROVER_ensures(connp->in_tx->request_transfer_coding == HTP_CODING_IDENTITY ==> (__CPROVER_return_value == HTP_OK &&
    connp->in_body_data_left == connp->in_tx->request_content_length && connp->in_content_length == connp->in_tx->request_content_length &&
    (connp->in_tx->request_content_length != 0 ? (connp->in_state == htp_connp_REQ_BODY_IDENTITY && connp->in_body_data_left > 0 && connp->in_tx->request_progress == HTP_REQUEST_BODY)
                                               : connp->in_state == htp_connp_REQ_FINALIZE)))
__CPROVER_ensures(connp->in_tx->request_transfer_coding == HTP_CODING_NO_BODY ==> (__CPROVER_return_value == HTP_OK && connp->in_state == htp_connp_REQ_FINALIZE))
__CPROVER_ensures((connp->in_tx->request_transfer_coding != HTP_CODING_CHUNKED && connp->in_tx->request_transfer_coding != HTP_CODING_IDENTITY &&
                   connp->in_tx->request_transfer_coding != HTP_CODING_NO_BODY) ==> (__CPROVER_return_value == HTP_ERROR && connp->in_state == O(connp->in_state)))
/* progress never moves backwards */
__CPROVER_ensures(connp->in_tx->request_progress >= O(connp->in_tx->request_progress) || O(connp->in_tx->request_progress) > HTP_REQUEST_BODY)
__CPROVER_ensures(RQ_COMMON_POST(connp))
;
/* after an HTTP/0.9 request everything that follows is drained and flagged */
htp_status_t contract_htp_connp_REQ_IGNORE_DATA_AFTER_HTTP_0_9(htp_connp_t *connp)
__CPROVER_requires(CUR_IN(connp) && __CPROVER_is_fresh(connp->conn, sizeof(htp_conn_t)) && RQ_SELF(connp, htp_connp_REQ_IGNORE_DATA_AFTER_HTTP_0_9))
__CPROVER_assigns(connp->conn->flags, connp->in_current_read_offset, connp->in_current_consume_offset, connp->in_stream_offset)
__CPROVER_ensures(__CPROVER_return_value == HTP_DATA && connp->in_current_read_offset == connp->in_current_len)
__CPROVER_ensures(connp->in_stream_offset == O(connp->in_stream_offset) + (O(connp->in_current_len) - O(connp->in_current_read_offset)))
__CPROVER_ensures(connp->in_current_consume_offset == O(connp->in_current_consume_offset) + (O(connp->in_current_len) - O(connp->in_current_read_offset)))
__CPROVER_ensures(connp->conn->flags == (O(connp->in_current_len) > O(connp->in_current_read_offset) ? (O(connp->conn->flags) | HTP_CONN_HTTP_0_9_EXTRA) : O(connp->conn->flags)))
__CPROVER_ensures(RQ_COMMON_POST(connp))
;
htp_status_t contract_site_htp_tx_state_request_start(htp_tx_t *tx)
__CPROVER_requires(tx != NULL && __CPROVER_rw_ok(tx, sizeof(*tx)) && __CPROVER_rw_ok(tx->connp, sizeof(htp_connp_t)))
__CPROVER_assigns(g_txstate_n, g_txstate_which, tx->connp->in_state, tx->request_progress)
__CPROVER_ensures(g_txstate_n == 1 && g_txstate_which == 2 && (__CPROVER_return_value == HTP_OK || __CPROVER_return_value == HTP_STOP || __CPROVER_return_value == HTP_ERROR))
__CPROVER_ensures(__CPROVER_return_value == HTP_OK ? tx->connp->in_state == htp_connp_REQ_LINE : tx->connp->in_state == O(tx->connp->in_state))
;
/* a new request transaction is started only when at least one byte is available */
htp_status_t contract_htp_connp_REQ_IDLE(htp_connp_t *connp)
__CPROVER_requires(CUR_IN(connp) && !g_in_gap && RQ_SELF(connp, htp_connp_REQ_IDLE) && __CPROVER_is_fresh(connp->conn, sizeof(htp_conn_t)) && WF_LIST_PRE(TXL(connp)))
__CPROVER_requires(g_create_n == 0 && g_txstate_n == 0 && TXL(connp)->current_size < LCAP && connp->in_tx == NULL)
__CPROVER_assigns(g_create_n, g_txstate_n, g_txstate_which, TXL(connp)->current_size, connp->conn->flags, connp->in_tx, connp->in_content_length, connp->in_body_data_left,
                  connp->in_chunk_request_index, connp->in_state)
__CPROVER_ensures(O(connp->in_current_read_offset) >= O(connp->in_current_len) ==> (__CPROVER_return_value == HTP_DATA && g_create_n == 0 && g_txstate_n == 0 &&
    connp->in_tx == O(connp->in_tx) && connp->in_state == O(connp->in_state) && TXL(connp)->current_size == O(TXL(connp)->current_size)))
__CPROVER_ensures(O(connp->in_current_read_offset) < O(connp->in_current_len) ==> (g_create_n == 1 &&
    (connp->in_tx == NULL ? (__CPROVER_return_value == HTP_ERROR && TXL(connp)->current_size == O(TXL(connp)->current_size))
                          : (TXL(connp)->current_size == O(TXL(connp)->current_size) + 1 && connp->in_tx->index == O(TXL(connp)->current_size) && g_txstate_n == 1))))
/* REQ_IDLE ignores the result of request_start (it always reports OK once the transaction exists) */
__CPROVER_ensures(RQ_COMMON_POST(connp))
;

/* ==== chunk-size line (C06) ============================================================================ */
int contract_htp_chomp(unsigned char *data, size_t *len)
__CPROVER_requires(__CPROVER_rw_ok(len, sizeof(*len)))
__CPROVER_assigns(*len)
__CPROVER_ensures(*len <= O(*len))
;
int64_t contract_site_htp_parse_chunked_length(unsigned char *data, size_t len, int *extension)
__CPROVER_requires(__CPROVER_rw_ok(extension, sizeof(int)))
__CPROVER_assigns(*extension, g_pcl_value)
/* enforced by unit htp_parse_chunked_length (C17): never above INT32_MAX */
__CPROVER_ensures(__CPROVER_return_value <= INT32_MAX && __CPROVER_return_value == g_pcl_value)
;
htp_status_t contract_htp_connp_REQ_BODY_CHUNKED_LENGTH(htp_connp_t *connp)
__CPROVER_requires(RQ_PRE(connp, htp_connp_REQ_BODY_CHUNKED_LENGTH) && g_consol_n == 0 && g_clear_n == 0)
__CPROVER_assigns(g_consol_n, g_consol_len, g_clear_n, g_pcl_value, connp->in_next_byte, connp->in_current_read_offset, connp->in_stream_offset, connp->in_current_consume_offset,
                  connp->in_buf, connp->in_buf_size, connp->in_chunked_length, connp->in_state, connp->in_tx->request_message_len, connp->in_tx->request_progress)
/* line not complete: every available byte was copied, none of them is LF, nothing is decided or counted yet */
__CPROVER_ensures(__CPROVER_return_value == HTP_DATA_BUFFER ==> (connp->in_current_read_offset == connp->in_current_len && g_consol_n == 0 && g_clear_n == 0 &&
    connp->in_state == O(connp->in_state) && connp->in_chunked_length == O(connp->in_chunked_length) && connp->in_tx->request_message_len == O(connp->in_tx->request_message_len) &&
    ((gk < CHUNK_CAP && (int64_t) gk >= O(connp->in_current_read_offset) && (int64_t) gk < connp->in_current_len) ==> connp->in_current_data[gk] != LF)))
/* line complete: it ends at the FIRST LF; the whole line (buffered part + this chunk's part) is counted in the message length and then discarded */
__CPROVER_ensures((__CPROVER_return_value == HTP_OK || __CPROVER_return_value == HTP_ERROR) ==> (
    (g_consol_n == 1) && (g_clear_n == 1 ==> (connp->in_current_read_offset > O(connp->in_current_read_offset) && connp->in_current_data[connp->in_current_read_offset - 1] == LF &&
    connp->in_tx->request_message_len == O(connp->in_tx->request_message_len) + (int64_t) g_consol_len && connp->in_chunked_length == g_pcl_value &&
    ((gk < CHUNK_CAP && (int64_t) gk >= O(connp->in_current_read_offset) && (int64_t) gk + 1 < connp->in_current_read_offset) ==> connp->in_current_data[gk] != LF)))))
/* the decision: positive => chunk data with that many bytes owed; zero => trailers; negative => error */
__CPROVER_ensures((__CPROVER_return_value == HTP_OK) ==> (g_clear_n == 1 && connp->in_chunked_length >= 0 &&
    (connp->in_chunked_length > 0 ? connp->in_state == htp_connp_REQ_BODY_CHUNKED_DATA : (connp->in_state == htp_connp_REQ_HEADERS && connp->in_tx->request_progress == HTP_REQUEST_TRAILER))))
__CPROVER_ensures((g_clear_n == 1 && connp->in_chunked_length < 0) ==> __CPROVER_return_value == HTP_ERROR)
__CPROVER_ensures(connp->in_stream_offset == O(connp->in_stream_offset) + (connp->in_current_read_offset - O(connp->in_current_read_offset)))
__CPROVER_ensures(RQ_COMMON_POST(connp))
;

/* response side buffer stubs */
htp_status_t contract_htp_connp_res_consolidate_data(htp_connp_t *connp, unsigned char **data, size_t *len)
__CPROVER_requires(__CPROVER_rw_ok(connp, sizeof(*connp)) && __CPROVER_w_ok(data, sizeof(*data)) && __CPROVER_w_ok(len, sizeof(*len)))
__CPROVER_assigns(g_consol_n, g_consol_len, *data, *len, connp->out_buf, connp->out_buf_size, connp->out_current_consume_offset)
__CPROVER_ensures(g_consol_n == 1 && (__CPROVER_return_value == HTP_OK ==> g_consol_len == *len))
__CPROVER_ensures(__CPROVER_return_value == HTP_OK || __CPROVER_return_value == HTP_ERROR)
__CPROVER_ensures(__CPROVER_return_value == HTP_OK ==> (*len <= LINE_CAP && __CPROVER_is_fresh(*data, *len)))
__CPROVER_ensures(__CPROVER_return_value != HTP_OK ==> (*data == O(*data) && *len == O(*len)))
__CPROVER_ensures(connp->out_current_consume_offset == O(connp->out_current_consume_offset) || connp->out_current_consume_offset == connp->out_current_read_offset)
;
void contract_htp_connp_res_clear_buffer(htp_connp_t *connp)
__CPROVER_requires(__CPROVER_rw_ok(connp, sizeof(*connp)))
__CPROVER_assigns(g_clear_n, connp->out_buf, connp->out_buf_size, connp->out_current_consume_offset)
__CPROVER_ensures(g_clear_n == 1 && connp->out_buf == NULL && connp->out_buf_size == 0 && connp->out_current_consume_offset == connp->out_current_read_offset)
;
/* response chunk-size line: like the request side, plus (a) empty lines are skipped, (b) an invalid size falls back to a close-delimited body
 * with the line un-read so that none of its bytes is lost, (c) leading junk ends the line early (probe) */
htp_status_t contract_htp_connp_RES_BODY_CHUNKED_LENGTH(htp_connp_t *connp)
__CPROVER_requires(CUR_OUT(connp) && TX_OUT(connp) && !g_in_gap && RS_SELF(connp, htp_connp_RES_BODY_CHUNKED_LENGTH) && g_consol_n == 0 && g_clear_n == 0)
__CPROVER_assigns(g_consol_n, g_consol_len, g_clear_n, g_pcl_value, connp->out_next_byte, connp->out_current_read_offset, connp->out_stream_offset, connp->out_current_consume_offset,
                  connp->out_buf, connp->out_buf_size, connp->out_chunked_length, connp->out_state, connp->out_tx->response_message_len, connp->out_tx->response_progress,
                  connp->out_tx->response_transfer_coding)
__CPROVER_ensures(__CPROVER_return_value == HTP_DATA_BUFFER || __CPROVER_return_value == HTP_OK || __CPROVER_return_value == HTP_ERROR)
__CPROVER_ensures(__CPROVER_return_value == HTP_DATA_BUFFER ==> (connp->out_current_read_offset == connp->out_current_len && connp->out_state == O(connp->out_state)))
__CPROVER_ensures(__CPROVER_return_value == HTP_OK ==> (
    (connp->out_chunked_length > 0 && connp->out_state == htp_connp_RES_BODY_CHUNKED_DATA && g_clear_n == 1) ||
    (connp->out_chunked_length == 0 && connp->out_state == htp_connp_RES_HEADERS && connp->out_tx->response_progress == HTP_RESPONSE_TRAILER && g_clear_n == 1) ||
    /* invalid size: body continues as close-delimited identity data; the buffer is NOT cleared and the read cursor is moved back */
    (connp->out_chunked_length < 0 && connp->out_chunked_length != -1004 && connp->out_state == htp_connp_RES_BODY_IDENTITY_STREAM_CLOSE &&
     connp->out_tx->response_transfer_coding == HTP_CODING_IDENTITY && g_clear_n == 0)))
__CPROVER_ensures(connp->out_chunked_length <= INT32_MAX || connp->out_chunked_length == O(connp->out_chunked_length))
__CPROVER_ensures(connp->out_tx->response_message_len >= O(connp->out_tx->response_message_len))
__CPROVER_ensures(RS_COMMON_POST(connp))
;

/* ==== request finalisation: what follows a complete request ============================================== */
/* Either the next request starts here (known method / nothing left) and the transaction completes without consuming it,
 * or the line is "unexpected body": then it is handed to the body sink and counted like any other body byte (C06). */
htp_status_t contract_htp_connp_REQ_FINALIZE(htp_connp_t *connp)
__CPROVER_requires(RQ_PRE(connp, htp_connp_REQ_FINALIZE) && g_consol_n == 0 && g_clear_n == 0 && g_txstate_n == 0 && g_body_n == 0)
__CPROVER_assigns(g_consol_n, g_consol_len, g_clear_n, g_txstate_n, g_txstate_which, BODY_LOG_ASSIGNS, __CPROVER_object_whole(connp), __CPROVER_object_whole(connp->in_tx))
__CPROVER_frees(connp->in_tx)
/* the line is not complete yet: wait, nothing delivered, nothing completed */
__CPROVER_ensures(__CPROVER_return_value == HTP_DATA_BUFFER ==> (g_body_n == 0 && g_txstate_n == 0 && g_clear_n == 0 && connp->in_tx == O(connp->in_tx) && connp->in_state == O(connp->in_state)))
/* completion and delivery exclude each other in one call; at most one delivery */
__CPROVER_ensures(g_body_n <= 1 && !(g_body_n == 1 && g_txstate_n == 1))
/* unexpected body: the delivered bytes are the consolidated line, they are counted in the message length, and the line is discarded afterwards (delivered exactly once) */
__CPROVER_ensures(g_body_n == 1 ==> (g_body_len <= LINE_CAP && g_clear_n == 1 && __CPROVER_return_value == g_body_rc && connp->in_tx == O(connp->in_tx)))
__CPROVER_ensures((g_body_n == 1 && g_body_len <= LINE_CAP) ==> connp->in_tx->request_message_len == O(connp->in_tx->request_message_len) + (int64_t) g_body_len)
/* completion never discards the pending bytes: the next request line is still there for REQ_LINE */
__CPROVER_ensures(g_txstate_n == 1 ==> g_clear_n == 0)
__CPROVER_ensures(RQ_COMMON_POST(connp))
;

/* ==== request header block ============================================================================== */
/* stubs: header processing (generic personality function, C02/C11 units), line classification helpers, bstr growth */
htp_status_t contract_site_process_request_header(htp_connp_t *connp, unsigned char *data, size_t len)
__CPROVER_requires(len <= (size_t) HTP_MAX_HEADER_FOLDED + 2 * LINE_CAP)
__CPROVER_assigns(g_hdrproc_n)
__CPROVER_ensures(g_hdrproc_n == 1 && (__CPROVER_return_value == HTP_OK || __CPROVER_return_value == HTP_ERROR))
;
int contract_htp_connp_is_line_terminator(htp_connp_t *connp, unsigned char *data, size_t len, int next_no_lf)
__CPROVER_requires(1) __CPROVER_assigns() __CPROVER_ensures(__CPROVER_return_value == 0 || __CPROVER_return_value == 1);
int contract_htp_connp_is_line_folded(unsigned char *data, size_t len)
__CPROVER_requires(1) __CPROVER_assigns() __CPROVER_ensures(__CPROVER_return_value >= -1 && __CPROVER_return_value <= 1);
bstr *contract_site_bstr_add_mem(bstr *destination, const void *data, size_t len)
__CPROVER_requires(__CPROVER_rw_ok(destination, sizeof(bstr)) && len <= LINE_CAP && destination->len <= (size_t) HTP_MAX_HEADER_FOLDED + LINE_CAP)
__CPROVER_assigns(__CPROVER_object_whole(destination))
__CPROVER_frees(destination)
__CPROVER_ensures(__CPROVER_return_value == NULL || ((__CPROVER_return_value == destination || __CPROVER_is_fresh(__CPROVER_return_value, sizeof(bstr))) &&
    __CPROVER_return_value->len == O(destination->len) + len))
/* failure leaves the destination alone */
__CPROVER_ensures(__CPROVER_return_value == NULL ==> (!__CPROVER_was_freed(destination) && destination->len == O(destination->len)))
;
htp_status_t contract_site_htp_tx_state_request_headers(htp_tx_t *tx)
__CPROVER_requires(tx != NULL && __CPROVER_rw_ok(tx, sizeof(*tx)) && __CPROVER_rw_ok(tx->connp, sizeof(htp_connp_t)))
__CPROVER_assigns(g_txstate_n, g_txstate_which, tx->connp->in_state, tx->connp->in_data_receiver_hook, tx->connp->in_current_receiver_offset, tx->flags)
__CPROVER_ensures(g_txstate_n == 1 && g_txstate_which == 3 && (__CPROVER_return_value == HTP_OK || __CPROVER_return_value == HTP_STOP || __CPROVER_return_value == HTP_ERROR))
__CPROVER_ensures(__CPROVER_return_value == HTP_OK ? (tx->connp->in_state == htp_connp_REQ_CONNECT_CHECK || tx->connp->in_state == htp_connp_REQ_FINALIZE) : tx->connp->in_state == O(tx->connp->in_state))
__CPROVER_ensures(tx->connp->in_current_receiver_offset == O(tx->connp->in_current_receiver_offset) || tx->connp->in_current_receiver_offset == tx->connp->in_current_read_offset)
;

htp_status_t contract_htp_connp_REQ_HEADERS(htp_connp_t *connp)
__CPROVER_requires(RQ_PRE(connp, htp_connp_REQ_HEADERS) && __CPROVER_is_fresh(connp->cfg, sizeof(htp_cfg_t)) && g_txstate_n == 0)
__CPROVER_requires(connp->in_header == NULL || (__CPROVER_is_fresh(connp->in_header, sizeof(bstr)) && connp->in_header->len <= (size_t) HTP_MAX_HEADER_FOLDED + LINE_CAP))
__CPROVER_assigns(g_consol_n, g_consol_len, g_clear_n, g_txstate_n, g_txstate_which, g_hdrproc_n, __CPROVER_object_whole(connp), connp->in_tx->flags, connp->in_tx->request_progress,
                  __CPROVER_object_whole(connp->in_header))
__CPROVER_frees(connp->in_header)
/* C10: a header assembled from folded lines never grows past the documented cap (plus the line that crossed it) */
__CPROVER_ensures(connp->in_header == NULL || connp->in_header->len <= (size_t) HTP_MAX_HEADER_FOLDED + LINE_CAP)
/* more data needed only with the chunk exhausted (C09); completion of the header block goes through the transaction transition exactly once */
__CPROVER_ensures(__CPROVER_return_value == HTP_DATA_BUFFER ==> (connp->in_current_read_offset == connp->in_current_len && g_txstate_n == 0 && connp->in_state == O(connp->in_state)))
__CPROVER_ensures(RQ_COMMON_POST(connp))
;
#endif
