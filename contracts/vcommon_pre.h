/* Included before the real sources in every wrapper TU. Specification-only. */
#ifndef VCOMMON_PRE_H
#define VCOMMON_PRE_H
#include <stddef.h>
#include <stdint.h>
#include <limits.h>
#include "ghost.h"
#endif
